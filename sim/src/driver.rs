//! Batch driver: shards runs over worker processes, attributes aborts and hangs, proves
//! determinism by re-running a sample of runs elsewhere, verifies replays, applies the
//! known-findings file, writes evidence, decides the exit code.
//!
//! Exit codes: 0 = property held on everything explored (KNOWN-FINDING lines may be printed),
//! 1 = `VIOLATION property=<id> replay=<path>`, 2 = harness error (never an alarm).

use crate::common::*;
use crate::hashseed;
use crate::rng::mix;
use serde_json::{Value, json};
use std::collections::{BTreeMap, BTreeSet};
use std::io::{BufRead, BufReader, Write};
use std::process::{Child, Command, Stdio};
use std::sync::mpsc;
use std::time::{Duration, Instant};

pub trait Engine: Sync {
    /// Property id, e.g. "C05".
    fn property(&self) -> &'static str;
    /// Engine name, e.g. "sim-budget".
    fn name(&self) -> &'static str;
    /// Stable small integer mixed into every run seed.
    fn engine_id(&self) -> u64;
    /// Number of runs in a batch of this tier.
    fn runs(&self, tier: Tier) -> u64;
    /// Execute run `ctx.k`; every choice comes from `ctx.rng`.
    fn run(&self, ctx: &mut RunCtx);
    /// Re-execute an explicit trace (no PRNG); report violations into ctx.
    fn replay(&self, trace: &Value, ctx: &mut RunCtx);
    /// Level + coverage + assumptions for the evidence file.
    fn evidence(&self, stats: &Stats, tier: Tier) -> EvidenceParts;
    /// Checks over the merged history of the whole batch (all worker processes), e.g. "no
    /// (project, options) pair ever produced two different digests".
    fn history_check(&self, _stats: &Stats) -> Vec<Violation> {
        vec![]
    }
    /// Wall bound for one run before it is declared hung.
    fn hang_bound(&self, _tier: Tier) -> Duration {
        Duration::from_secs(300)
    }
    /// How many runs are re-executed in other processes for the determinism self-check.
    fn selfcheck_runs(&self, tier: Tier) -> u64 {
        match tier {
            Tier::Quick => 24,
            Tier::Thorough => 96,
        }
    }
    /// Default worker processes.
    fn jobs(&self) -> usize {
        16
    }
}

pub struct EvidenceParts {
    pub level: &'static str,
    pub evaluations: u64,
    pub distinct_nontrivial: u64,
    pub rule: String,
    pub extra: Value,
    pub assumptions: Vec<String>,
}

pub fn seed_for(seed: u64, engine: &dyn Engine, k: u64) -> u64 {
    let s = mix(seed, engine.engine_id(), k);
    if s == 0 { 1 } else { s }
}

/// Execute one run in this process, on a fresh thread under its own hash epoch.
pub fn execute_run(engine: &'static dyn Engine, seed: u64, k: u64, tier: Tier) -> RunReport {
    let seed_k = seed_for(seed, engine, k);
    let started = Instant::now();
    let served_before = hashseed::served();
    hashseed::set_epoch(mix(seed_k, 0x4841_5348, 1) | 1);
    let res = on_fresh_thread("run", move || {
        let mut ctx = RunCtx::new(k, seed_k, tier);
        engine.run(&mut ctx);
        ctx
    });
    hashseed::clear_epoch();
    let served = hashseed::served() - served_before;
    let res = res.map(|mut ctx| {
        ctx.stats.inc("hashseed_served", served);
        ctx
    });
    let wall_us = started.elapsed().as_micros() as u64;
    match res {
        Ok(ctx) => RunReport {
            k,
            seed_k,
            digest: ctx.log.digest(),
            logical_steps: ctx.logical_steps,
            stats: ctx.stats,
            violations: ctx.violations,
            harness_errors: ctx.harness_errors,
            wall_us,
        },
        Err(p) => RunReport {
            k,
            seed_k,
            digest: 0,
            logical_steps: 0,
            stats: Stats::default(),
            violations: vec![],
            harness_errors: vec![format!(
                "run {k} (seed_k {seed_k}) escaped with a panic the engine did not attribute: {} @ {}",
                p.message, p.location
            )],
            wall_us,
        },
    }
}

/// Worker process main loop: `dst worker <engine> <tier> <seed> <comma-separated ks | a..b%m=r>`.
pub fn worker_main(engine: &'static dyn Engine, tier: Tier, seed: u64, ks: Vec<u64>) {
    let stdout = std::io::stdout();
    for k in ks {
        {
            let mut out = stdout.lock();
            let _ = writeln!(out, "S {k}");
            let _ = out.flush();
        }
        let report = execute_run(engine, seed, k, tier);
        if std::env::var_os("VERIF_LOG").is_some() {
            eprintln!("[run {k}] digest={:016x}", report.digest);
        }
        let mut out = stdout.lock();
        let _ = writeln!(out, "R {}", serde_json::to_string(&report).unwrap());
        let _ = out.flush();
    }
}

enum Msg {
    Start(usize, u64),
    Report(usize, Box<RunReport>),
    Eof(usize),
    Garbage(usize, String),
}

struct Worker {
    child: Child,
    current: Option<(u64, Instant)>,
    pending: BTreeSet<u64>,
    done: bool,
}

fn spawn_worker(
    engine: &dyn Engine,
    tier: Tier,
    seed: u64,
    ks: &[u64],
    idx: usize,
    tx: &mpsc::Sender<Msg>,
) -> Worker {
    let exe = std::env::current_exe().expect("current_exe");
    let list = ks
        .iter()
        .map(|k| k.to_string())
        .collect::<Vec<_>>()
        .join(",");
    let mut cmd = Command::new(exe);
    cmd.arg("worker")
        .arg(engine.name())
        .arg(tier.as_str())
        .arg(seed.to_string())
        .arg(list)
        .stdin(Stdio::null())
        .stdout(Stdio::piped());
    if std::env::var_os("VERIF_DEBUG").is_some() || std::env::var_os("VERIF_LOG").is_some() {
        cmd.stderr(Stdio::inherit());
    } else {
        cmd.stderr(Stdio::null());
    }
    let mut child = cmd.spawn().expect("spawn worker");
    let stdout = child.stdout.take().unwrap();
    let tx = tx.clone();
    std::thread::spawn(move || {
        let reader = BufReader::with_capacity(1 << 20, stdout);
        for line in reader.lines() {
            let Ok(line) = line else { break };
            if let Some(rest) = line.strip_prefix("S ") {
                if let Ok(k) = rest.trim().parse::<u64>() {
                    let _ = tx.send(Msg::Start(idx, k));
                    continue;
                }
            }
            if let Some(rest) = line.strip_prefix("R ") {
                match serde_json::from_str::<RunReport>(rest) {
                    Ok(r) => {
                        let _ = tx.send(Msg::Report(idx, Box::new(r)));
                    }
                    Err(e) => {
                        let _ = tx.send(Msg::Garbage(idx, format!("bad report: {e}")));
                    }
                }
                continue;
            }
            // Anything else on stdout comes from the code under test printing; ignore.
        }
        let _ = tx.send(Msg::Eof(idx));
    });
    Worker {
        child,
        current: None,
        pending: ks.iter().copied().collect(),
        done: false,
    }
}

pub struct BatchOutcome {
    pub reports: BTreeMap<u64, RunReport>,
    /// Runs that killed their worker process (abort / stack overflow / signal): k → description.
    pub aborted: BTreeMap<u64, String>,
    /// Runs that exceeded the hang bound.
    pub hung: BTreeSet<u64>,
    pub harness_errors: Vec<String>,
}

/// Run the given ks over `jobs` worker processes; a run that kills or hangs its worker is
/// recorded and the rest of the shard is continued in a new worker.
pub fn run_batch(
    engine: &dyn Engine,
    tier: Tier,
    seed: u64,
    ks: &[u64],
    jobs: usize,
) -> BatchOutcome {
    let mut outcome = BatchOutcome {
        reports: BTreeMap::new(),
        aborted: BTreeMap::new(),
        hung: BTreeSet::new(),
        harness_errors: vec![],
    };
    if ks.is_empty() {
        return outcome;
    }
    let jobs = jobs.max(1).min(ks.len());
    let (tx, rx) = mpsc::channel::<Msg>();
    let mut shards: Vec<Vec<u64>> = vec![vec![]; jobs];
    for (i, k) in ks.iter().enumerate() {
        shards[i % jobs].push(*k);
    }
    let mut workers: Vec<Worker> = Vec::new();
    for shard in shards.iter() {
        let idx = workers.len();
        workers.push(spawn_worker(engine, tier, seed, shard, idx, &tx));
    }
    let bound = engine.hang_bound(tier);
    loop {
        if workers.iter().all(|w| w.done) {
            break;
        }
        match rx.recv_timeout(Duration::from_millis(500)) {
            Ok(Msg::Start(i, k)) => {
                workers[i].current = Some((k, Instant::now()));
            }
            Ok(Msg::Report(i, r)) => {
                workers[i].current = None;
                workers[i].pending.remove(&r.k);
                outcome.reports.insert(r.k, *r);
            }
            Ok(Msg::Garbage(i, msg)) => {
                outcome
                    .harness_errors
                    .push(format!("worker {i}: {msg}"));
            }
            Ok(Msg::Eof(i)) => {
                if workers[i].done {
                    continue;
                }
                let status = workers[i].child.wait().ok();
                workers[i].done = true;
                let remaining: Vec<u64> = workers[i].pending.iter().copied().collect();
                if remaining.is_empty() {
                    continue;
                }
                // The worker died mid-shard. The run in flight is the culprit.
                let culprit = workers[i].current.map(|(k, _)| k).unwrap_or(remaining[0]);
                let desc = format!("worker exited with {status:?} during run {culprit}");
                if !outcome.hung.contains(&culprit) {
                    outcome.aborted.insert(culprit, desc);
                }
                let rest: Vec<u64> = remaining.into_iter().filter(|k| *k != culprit).collect();
                if !rest.is_empty() {
                    let idx = workers.len();
                    workers.push(spawn_worker(engine, tier, seed, &rest, idx, &tx));
                }
            }
            Err(mpsc::RecvTimeoutError::Timeout) => {}
            Err(mpsc::RecvTimeoutError::Disconnected) => break,
        }
        // Hang watchdog.
        for w in workers.iter_mut() {
            if w.done {
                continue;
            }
            if let Some((k, since)) = w.current {
                if since.elapsed() > bound {
                    outcome.hung.insert(k);
                    let _ = w.child.kill();
                }
            }
        }
    }
    outcome
}

// ------------------------------------------------------------------------------------------
// Known findings

#[derive(Clone, Debug)]
pub struct KnownFinding {
    pub property: String,
    pub status: String,
    pub signature: String,
    pub what: String,
}

pub fn load_known_findings() -> Vec<KnownFinding> {
    let path = format!("{}/known_findings.jsonl", verif_dir());
    let Ok(text) = std::fs::read_to_string(path) else {
        return vec![];
    };
    text.lines()
        .filter(|l| !l.trim().is_empty() && !l.trim_start().starts_with('#'))
        .filter_map(|l| serde_json::from_str::<Value>(l).ok())
        .map(|v| KnownFinding {
            property: jstr(&v, "property"),
            status: jstr(&v, "status"),
            signature: jstr(&v, "signature"),
            what: jstr(&v, "what"),
        })
        .collect()
}

// ------------------------------------------------------------------------------------------
// Check entry point

pub struct CheckArgs {
    pub tier: Tier,
    pub seed: u64,
    pub jobs: Option<usize>,
    pub runs: Option<u64>,
}

fn write_replay(v: &Violation, engine: &dyn Engine) -> String {
    let dir = format!("{}/replays/{}", verif_dir(), v.property);
    let _ = std::fs::create_dir_all(&dir);
    let path = format!(
        "{dir}/{}-{:016x}-{:08x}.json",
        engine.name(),
        v.seed_k,
        (hash_str(&v.signature) & 0xffff_ffff) as u32
    );
    let body = json!({
        "property": v.property,
        "engine": engine.name(),
        "class": v.class,
        "signature": v.signature,
        "detail": v.detail,
        "seed_k": v.seed_k,
        "k": v.k,
        "trace": v.trace,
    });
    std::fs::write(&path, serde_json::to_string_pretty(&body).unwrap()).expect("write replay");
    path
}

/// Replays a file in a fresh process; returns the signatures it reported.
fn replay_in_fresh_process(path: &str) -> Result<Vec<String>, String> {
    let exe = std::env::current_exe().map_err(|e| e.to_string())?;
    let out = Command::new(exe)
        .arg("replay")
        .arg(path)
        .stdin(Stdio::null())
        .stderr(Stdio::null())
        .output()
        .map_err(|e| e.to_string())?;
    let text = String::from_utf8_lossy(&out.stdout);
    let sigs = text
        .lines()
        .filter_map(|l| l.strip_prefix("REPLAY-SIGNATURE "))
        .map(|s| s.to_string())
        .collect::<Vec<_>>();
    match out.status.code() {
        Some(0) | Some(1) => Ok(sigs),
        other => {
            // A replay that kills the process reproduces an abort-class violation.
            Ok(vec![format!("<process-died {other:?}>")])
        }
    }
}

pub fn check_main(engine: &'static dyn Engine, args: CheckArgs) -> i32 {
    let started = Instant::now();
    let tier = args.tier;
    let seed = args.seed;
    let n = args.runs.unwrap_or_else(|| engine.runs(tier));
    let jobs = args.jobs.unwrap_or_else(|| engine.jobs());
    let prop = engine.property();
    // run disks (tmpfs directories) of processes that were killed or died in an earlier check
    crate::project::sweep_stale_disks();
    println!(
        "[{}] property={prop} tier={} VERIF_SEED={seed} runs={n} jobs={jobs}",
        engine.name(),
        tier.as_str()
    );

    let ks: Vec<u64> = (0..n).collect();
    let mut outcome = run_batch(engine, tier, seed, &ks, jobs);
    let mut harness_errors: Vec<String> = std::mem::take(&mut outcome.harness_errors);

    // --- attribute aborts and hangs by re-running each suspect alone ---------------------
    let mut violations: Vec<Violation> = vec![];
    let suspects: Vec<(u64, String, bool)> = outcome
        .aborted
        .iter()
        .map(|(k, d)| (*k, d.clone(), false))
        .chain(outcome.hung.iter().map(|k| (*k, "hang".to_string(), true)))
        .collect();
    for (k, desc, was_hang) in suspects {
        let again = run_batch(engine, tier, seed, &[k], 1);
        if let Some(r) = again.reports.get(&k) {
            // Not reproducible alone: environment hiccup, keep the successful report.
            println!("[{}] run {k}: {desc} did not reproduce when re-run alone", engine.name());
            outcome.reports.insert(k, clone_report(r));
            continue;
        }
        let class = if was_hang || again.hung.contains(&k) {
            "hang"
        } else {
            "abort"
        };
        // The engine cannot describe a run that kills the process; the replay is the seed.
        violations.push(Violation {
            property: prop.to_string(),
            class: class.to_string(),
            signature: format!("{class}|engine={}|k={k}|seed={seed}", engine.name()),
            detail: format!(
                "run {k} of {} under VERIF_SEED={seed} {} (twice, the second time alone in its process): {desc}",
                engine.name(),
                if class == "hang" { "did not finish within the wall bound" } else { "killed its worker process (abort / stack overflow / signal)" }
            ),
            trace: json!({ "rerun": { "k": k, "seed": seed, "tier": tier.as_str() } }),
            seed_k: seed_for(seed, engine, k),
            k,
        });
    }

    // --- merge ---------------------------------------------------------------------------
    let mut stats = Stats::default();
    let mut logical_steps = 0u64;
    let mut run_wall_us = 0u64;
    for r in outcome.reports.values() {
        stats.merge(r.stats.clone());
        logical_steps += r.logical_steps;
        run_wall_us += r.wall_us;
        violations.extend(r.violations.iter().cloned());
        harness_errors.extend(r.harness_errors.iter().cloned());
    }
    violations.extend(engine.history_check(&stats));
    let completed = outcome.reports.len() as u64;
    // driver-level violations (a run that killed or stalled its worker) carry a `rerun` trace
    let unreported = violations.iter().filter(|v| (v.class == "abort" || v.class == "hang") && v.trace.get("rerun").is_some()).count() as u64;
    let missing = n.saturating_sub(completed).saturating_sub(unreported);
    if missing > 0 {
        harness_errors.push(format!("{missing} runs produced no report"));
    }

    // --- determinism self-check ----------------------------------------------------------
    let sc_n = engine.selfcheck_runs(tier).min(n);
    let mut selfcheck = json!({"runs": 0, "mismatches": 0});
    if sc_n > 0 {
        // Spread the sample over the batch; re-run under two other shard layouts.
        let stride = (n / sc_n).max(1);
        let sample: Vec<u64> = (0..sc_n)
            .map(|i| (i * stride) % n)
            .filter(|k| outcome.reports.contains_key(k))
            .collect();
        let mut mismatches = vec![];
        for width in [1usize, 5] {
            let again = run_batch(engine, tier, seed, &sample, width.min(jobs));
            for k in &sample {
                let a = outcome.reports.get(k).map(|r| r.digest);
                let b = again.reports.get(k).map(|r| r.digest);
                if a != b {
                    mismatches.push(json!({"k": k, "first": a, "again": b, "width": width}));
                }
            }
        }
        selfcheck = json!({
            "runs": sample.len() * 2,
            "mismatches": mismatches.len(),
            "layouts": ["16 processes", "1 process", "5 processes"],
            "detail": mismatches,
        });
        if !mismatches.is_empty() {
            harness_errors.push(format!(
                "determinism self-check failed: {} of {} re-runs gave a different event-log digest",
                mismatches.len(),
                sample.len() * 2
            ));
        }
    }

    // --- de-duplicate, write replays, verify them, apply known findings --------------------
    let known = load_known_findings();
    let mut by_sig: BTreeMap<String, Violation> = BTreeMap::new();
    let mut sig_counts: BTreeMap<String, u64> = BTreeMap::new();
    for v in violations {
        *sig_counts.entry(v.signature.clone()).or_insert(0) += 1;
        by_sig.entry(v.signature.clone()).or_insert(v);
    }
    let mut reported = 0u64;
    let mut known_hits = 0u64;
    let mut printed_known: BTreeSet<String> = BTreeSet::new();
    let mut violation_lines = vec![];
    // Unknown violations grouped by class, simplest trace first; at most MAX_PER_CLASS of each
    // class are written, replay-verified in a fresh process and printed (a broken tree can
    // produce thousands of signatures of one class; each still counts in the evidence).
    #[allow(non_snake_case)]
    let MAX_PER_CLASS: usize = std::env::var("VERIF_MAX_PER_CLASS").ok().and_then(|s| s.parse().ok()).unwrap_or(3);
    let mut by_class: BTreeMap<String, Vec<&Violation>> = BTreeMap::new();
    for (sig, v) in by_sig.iter() {
        if let Some(kf) = known
            .iter()
            .find(|kf| kf.status == "known" && kf.property == v.property && &kf.signature == sig)
        {
            known_hits += 1;
            if printed_known.insert(sig.clone()) {
                println!(
                    "KNOWN-FINDING: property={} {} [{}; seen {}x this run]",
                    v.property, kf.what, sig, sig_counts[sig]
                );
            }
            continue;
        }
        by_class.entry(v.class.clone()).or_default().push(v);
    }
    let mut unknown_signatures = 0u64;
    for (class, vs) in by_class.iter_mut() {
        unknown_signatures += vs.len() as u64;
        vs.sort_by_key(|v| (serde_json::to_string(&v.trace).map(|t| t.len()).unwrap_or(0), v.k));
        let mut shown = 0;
        let mut failed_replays = vec![];
        for v in vs.iter() {
            if shown >= MAX_PER_CLASS {
                break;
            }
            let sig = &v.signature;
            let path = write_replay(v, engine);
            // Batch-level findings (abort, hang, cross-process history) are replayed by re-running
            // the run / batch, not by an explicit trace.
            if v.trace.get("rerun").is_none() {
                match replay_in_fresh_process(&path) {
                    Ok(sigs) if sigs.iter().any(|s| s == sig) => {}
                    Ok(sigs) => {
                        failed_replays.push(format!(
                            "replay of {path} did not reproduce signature {sig} (got {sigs:?})"
                        ));
                        let _ = std::fs::remove_file(&path);
                        if failed_replays.len() > 5 {
                            break;
                        }
                        continue;
                    }
                    Err(e) => {
                        failed_replays.push(format!("could not replay {path}: {e}"));
                        continue;
                    }
                }
            }
            shown += 1;
            reported += 1;
            println!("--- violation class={class} (signature seen {}x) ---", sig_counts[sig]);
            println!("{}", short(&v.detail, 3000));
            violation_lines.push(format!("VIOLATION property={} replay={}", v.property, path));
        }
        if vs.len() > shown {
            println!(
                "... class {class}: {} distinct signature(s) in total, {} shown",
                vs.len(),
                shown
            );
        }
        if shown == 0 {
            // Nothing of this class replays: that is a harness defect, not a finding.
            harness_errors.extend(failed_replays);
        }
    }
    // Known findings that did not fire are still listed (the finding is a fact about the tree as
    // recorded; the check does not pretend it went away) — but only when the engine explored the
    // area: engines report `known_probe_<signature-hash>` counters for that; keep it simple and
    // print nothing for silent ones.

    // --- evidence ------------------------------------------------------------------------
    let wall_s = started.elapsed().as_secs_f64();
    let parts = engine.evidence(&stats, tier);
    let mut coverage = serde_json::Map::new();
    coverage.insert("evaluations".into(), json!(parts.evaluations));
    coverage.insert("distinct_nontrivial".into(), json!(parts.distinct_nontrivial));
    coverage.insert("rule".into(), json!(parts.rule));
    let samples = if stats.samples.is_empty() {
        vec![json!({"note": "no sample recorded"})]
    } else {
        stats.samples.clone()
    };
    coverage.insert("samples".into(), json!(samples));
    coverage.insert("simulated_runs".into(), json!(completed));
    coverage.insert(
        "simulated_runs_per_hour".into(),
        json!(if wall_s > 0.0 { (completed as f64 / wall_s * 3600.0) as u64 } else { 0 }),
    );
    coverage.insert("seeds".into(), json!({
        "VERIF_SEED": seed,
        "run_seed": "mix(VERIF_SEED, engine_id, k) for k in 0..runs",
        "engine_id": engine.engine_id(),
        "runs": n,
    }));
    coverage.insert(
        "simulated_time".into(),
        json!({
            "logical_steps": logical_steps,
            "note": "aiken has no timers or clocks on these paths; simulated time is reported as logical steps (machine steps / operations applied)",
            "cpu_seconds_in_runs": run_wall_us as f64 / 1e6,
        }),
    );
    coverage.insert("determinism_selfcheck".into(), selfcheck);
    coverage.insert("hash_seed_seam_calls".into(), json!(stats.get("hashseed_served")));
    coverage.insert("counters".into(), json!(stats.counters));
    coverage.insert(
        "distinct".into(),
        json!(stats
            .sets
            .iter()
            .map(|(k, v)| (k.clone(), v.len()))
            .collect::<BTreeMap<_, _>>()),
    );
    coverage.insert("notes".into(), json!(stats.notes));
    coverage.insert("known_findings_hit".into(), json!(known_hits));
    coverage.insert("harness_errors".into(), json!(harness_errors));
    if let Value::Object(extra) = parts.extra {
        for (k, v) in extra {
            coverage.insert(k, v);
        }
    }
    let evidence = json!({
        "property_id": prop,
        "tier": tier.as_str(),
        "seed": seed,
        "level": parts.level,
        "coverage": Value::Object(coverage),
        "assumptions": parts.assumptions,
        "wall_s": wall_s,
        "violations": unknown_signatures,
    });
    let _ = std::fs::create_dir_all(format!("{}/evidence", verif_dir()));
    let epath = format!("{}/evidence/{prop}.json", verif_dir());
    if let Err(e) = std::fs::write(&epath, serde_json::to_string_pretty(&evidence).unwrap()) {
        harness_errors.push(format!("cannot write {epath}: {e}"));
    }

    println!(
        "[{}] {} runs in {:.1}s, {} evaluations, {} distinct non-trivial, {} violation signature(s), {} known, {} harness error(s)",
        engine.name(),
        completed,
        wall_s,
        parts.evaluations,
        parts.distinct_nontrivial,
        reported,
        known_hits,
        harness_errors.len()
    );
    for l in &violation_lines {
        println!("{l}");
    }
    crate::project::sweep_stale_disks();
    if reported > 0 {
        return 1;
    }
    if !harness_errors.is_empty() {
        let distinct: BTreeSet<&String> = harness_errors.iter().collect();
        for e in distinct.iter().take(20) {
            println!("HARNESS-ERROR: {}", short(e, 2000));
        }
        return 2;
    }
    0
}

fn clone_report(r: &RunReport) -> RunReport {
    RunReport {
        k: r.k,
        seed_k: r.seed_k,
        digest: r.digest,
        logical_steps: r.logical_steps,
        stats: r.stats.clone(),
        violations: r.violations.clone(),
        harness_errors: r.harness_errors.clone(),
        wall_us: r.wall_us,
    }
}

/// `dst replay <file>`: re-execute the explicit trace in this (fresh) process.
pub fn replay_main(engines: &[&'static dyn Engine], path: &str) -> i32 {
    let Ok(text) = std::fs::read_to_string(path) else {
        println!("HARNESS-ERROR: cannot read {path}");
        return 2;
    };
    let Ok(v) = serde_json::from_str::<Value>(&text) else {
        println!("HARNESS-ERROR: {path} is not JSON");
        return 2;
    };
    let name = jstr(&v, "engine");
    let Some(engine) = engines.iter().find(|e| e.name() == name).copied() else {
        println!("HARNESS-ERROR: unknown engine {name}");
        return 2;
    };
    let trace = v.get("trace").cloned().unwrap_or(Value::Null);
    let seed_k = ju64(&v, "seed_k");
    // Abort / hang class: the trace says which run to re-run.
    if let Some(rr) = trace.get("rerun") {
        let k = ju64(rr, "k");
        let seed = ju64(rr, "seed");
        let tier = Tier::parse(&jstr(rr, "tier")).unwrap_or(Tier::Quick);
        let report = execute_run(engine, seed, k, tier);
        // If we get here the process survived.
        println!("replay: run {k} completed without killing the process (digest {:016x})", report.digest);
        for viol in &report.violations {
            println!("REPLAY-SIGNATURE {}", viol.signature);
        }
        return if report.violations.is_empty() { 0 } else { 1 };
    }
    hashseed::set_epoch(mix(seed_k, 0x4841_5348, 1) | 1);
    let res = on_fresh_thread("run", move || {
        let mut ctx = RunCtx::new(ju64(&v, "k"), seed_k, Tier::Quick);
        engine.replay(&trace, &mut ctx);
        ctx
    });
    hashseed::clear_epoch();
    match res {
        Ok(ctx) => {
            for e in &ctx.harness_errors {
                println!("HARNESS-ERROR: {e}");
            }
            if ctx.violations.is_empty() {
                println!("replay: no violation reproduced");
                return if ctx.harness_errors.is_empty() { 0 } else { 2 };
            }
            for viol in &ctx.violations {
                println!("REPLAY-SIGNATURE {}", viol.signature);
                println!("replay: class={} {}", viol.class, short(&viol.detail, 2000));
                println!("VIOLATION property={} replay={}", viol.property, path);
            }
            1
        }
        Err(p) => {
            println!("HARNESS-ERROR: replay panicked: {} @ {}", p.message, p.location);
            2
        }
    }
}
