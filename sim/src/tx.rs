//! C19 `sim-tx`: transaction simulation reports what the scripts actually cost and decide.
//!
//! Phase-two evaluation is a sequential session over a shared resource (the budget handed from
//! redeemer to redeemer), fed by caller-ordered deliveries (resolved inputs, witness scripts,
//! datums, redeemers) any of which can be missing, under a clock configuration (`SlotConfig`).
//!
//! Real code: `eval_phase_two*`, `eval_phase_one`, `DataLookupTable`, `find_script`, `TxInfo*`,
//! `to_plutus_data`, the CEK machine. Simulated: the transaction and its environment.
//!
//! Reference: a sequential fold written here: for each redeemer in order, look the script up in a
//! plain map of what was put into the transaction, apply `datum?, redeemer, ctx` (V1/V2) or `ctx`
//! (V3), evaluate under the remaining budget, subtract.

use crate::common::*;
use crate::driver::{Engine, EvidenceParts};
use crate::rng::Rng;
use cryptoxide::{blake2b::Blake2b, digest::Digest};
use pallas_codec::minicbor;
use pallas_codec::utils::{Bytes, CborWrap, MaybeIndefArray, NonEmptyKeyValuePairs, NonEmptySet, Nullable, Set};
use pallas_primitives::conway::{
    Anchor, DRep, GovAction, GovActionId, ProposalProcedure, Vote, Voter, VotingProcedure,
    Certificate, CostModels, DatumOption, ExUnits, Language, MintedTx, PlutusScript,
    PostAlonzoTransactionOutput, PseudoScript, PseudoTransactionOutput, Redeemer, RedeemerTag,
    Redeemers, RedeemersKey, RedeemersValue, StakeCredential, TransactionBody, TransactionInput,
    TransactionOutput, Tx, Value as TxValue, WitnessSet,
};
use pallas_primitives::{Fragment, PlutusData};
use serde::{Deserialize, Serialize};
use serde_json::{Value, json};
use std::collections::BTreeMap;
use uplc::ast::{DeBruijn, NamedDeBruijn, Program};
use uplc::machine::cost_model::{BuiltinCosts, ExBudget};
use uplc::tx::script_context::{ResolvedInput, SlotConfig, TxInfoV1, TxInfoV2, TxInfoV3};
use uplc::tx::to_plutus_data::ToPlutusData;
use uplc::tx::{eval_phase_two, eval_phase_two_with_protocol};

pub struct TxEngine;

const PROP: &str = "C19";

// ------------------------------------------------------------------------------------------
// Scenario description (explicit, serialisable: it is the replay trace)

#[derive(Clone, Debug, Serialize, Deserialize, PartialEq)]
pub enum Behaviour {
    Ok,
    Fail,
    /// Loop k times, cost independent of the arguments.
    Burn(u32),
    /// Hash the serialised last argument (the script context): cost depends on the context.
    HashCtx,
    /// `consByteString 256 #""`: wraps under the pre-Chang builtin semantics of Plutus V1/V2 and
    /// fails afterwards, so the verdict depends on the protocol version handed to the evaluator.
    ConsWrap,
    /// Terminates normally with `False`: a Plutus V1 / V2 script succeeds whenever it does not
    /// error, a Plutus V3 script must return unit, so this one fails under V3 only.
    ReturnFalse,
    /// Terminates normally with `True`: still not unit, so it fails under Plutus V3 as well (the
    /// ledger does not accept a boolean there) and succeeds under V1 / V2.
    ReturnTrue,
}

#[derive(Clone, Debug, Serialize, Deserialize, PartialEq)]
pub enum Purpose {
    Mint,
    Spend { inline_datum: bool },
    Withdraw,
    Cert,
    /// Plutus V3 only: the script votes as a DRep.
    Vote,
    /// Plutus V3 only: the script is the guardrail of a treasury-withdrawal proposal.
    Propose,
}

#[derive(Clone, Debug, Serialize, Deserialize, PartialEq)]
pub struct ScriptUse {
    pub version: u8,
    pub behaviour: Behaviour,
    pub purpose: Purpose,
    /// Script delivered through a reference input instead of the witness set.
    pub by_reference: bool,
    pub unique: u32,
    /// With `by_reference`: the output carrying the script is one the transaction SPENDS (a
    /// key-locked input) instead of one it only references — equally valid for the ledger.
    #[serde(default)]
    pub on_spent_input: bool,
    /// For `Purpose::Cert`: which certificate the script authorises (see `script_certificate`);
    /// for `Purpose::Vote`: odd = the script is a committee member, even = a DRep.
    #[serde(default)]
    pub cert_kind: u8,
}

#[derive(Clone, Debug, Serialize, Deserialize, PartialEq)]
pub enum Drop {
    None,
    Script(usize),
    Datum(usize),
    ResolvedInput(usize),
    Redeemer(usize),
    ExtraRedeemer,
}

#[derive(Clone, Debug, Serialize, Deserialize, PartialEq)]
pub enum BudgetChoice {
    /// No initial budget given (callers such as `aiken tx simulate`).
    Unspecified,
    Ample,
    /// Exactly the sum of the reference costs.
    Exact,
    /// One unit short in cpu / mem.
    ShortCpu,
    ShortMem,
    /// Enough for the first `n` redeemers exactly, one cpu unit short for the next.
    PrefixShort(usize),
    /// Enough for every single script on its own, not for all of them together.
    MaxSingle,
}

#[derive(Clone, Debug, Serialize, Deserialize, PartialEq)]
pub struct Scenario {
    pub scripts: Vec<ScriptUse>,
    /// Extra key-locked inputs (noise in the resolved-input set).
    pub plain_inputs: usize,
    pub tx_seed: u64,
    pub validity: (Option<u64>, Option<u64>),
    pub slot_config: (u64, u64, u32),
    pub with_cost_models: bool,
    /// Cost models supplied, except for this Plutus version (1, 2 or 3).
    #[serde(default)]
    pub missing_cost_model: Option<u8>,
    pub protocol: Option<u16>,
    pub budget: BudgetChoice,
    pub drop: Drop,
    /// Permutations (as seeds) applied to caller-ordered collections.
    pub permute_utxos: u64,
    pub permute_witnesses: u64,
    pub permute_redeemers: u64,
    pub redeemers_as_map: bool,
    pub run_phase_one: bool,
    /// Order in which the body lists its mint policies, withdrawals, voters and inputs (the
    /// ledger's indices always follow the sorted order, whatever order the body was written in).
    #[serde(default)]
    pub permute_body: u64,
    /// Certificates that need no script (key credentials, legacy registration, pool retirement,
    /// a script credential in a position that authorises nothing) interleaved with the others.
    #[serde(default)]
    pub noise_certs: u8,
    /// Withdrawals from key-hash reward accounts and votes cast by key voters (committee, DRep,
    /// stake pool) next to the script ones: they need no script, but they take part in the
    /// ledger's ordering (script credentials before key credentials; committee before DRep
    /// before stake-pool voters), which is what redeemer indices refer to.
    #[serde(default)]
    pub noise_withdrawals: u8,
    #[serde(default)]
    pub noise_voters: u8,
}

// ------------------------------------------------------------------------------------------
// Building blocks

fn blake2b(bytes: &[&[u8]], n: usize) -> Vec<u8> {
    let mut ctx = Blake2b::new(n);
    for b in bytes {
        ctx.input(b);
    }
    let mut out = vec![0u8; n];
    ctx.result(&mut out);
    out
}

fn script_source(s: &ScriptUse) -> String {
    let arity = match (s.version, &s.purpose) {
        (3, _) => 1,
        (_, Purpose::Spend { .. }) => 3,
        _ => 2,
    };
    let last = format!("a{}", arity - 1);
    let unit = "(con unit ())";
    let body = match &s.behaviour {
        Behaviour::Ok => unit.to_string(),
        Behaviour::Fail => "(error)".to_string(),
        Behaviour::ReturnFalse => "(con bool False)".to_string(),
        Behaviour::ReturnTrue => "(con bool True)".to_string(),
        Behaviour::Burn(k) => format!(
            "[ [ (lam s [ s s ]) (lam self (lam i (force [ [ [ (force (builtin ifThenElse)) [ [ (builtin lessThanEqualsInteger) i ] (con integer 0) ] ] (delay {unit}) ] (delay [ [ self self ] [ [ (builtin subtractInteger) i ] (con integer 1) ] ]) ]))) ] (con integer {k}) ]"
        ),
        Behaviour::ConsWrap => format!(
            "[ (lam h {unit}) [ [ (builtin consByteString) (con integer 256) ] (con bytestring #) ] ]"
        ),
        Behaviour::HashCtx => format!(
            "[ (lam h {unit}) [ (builtin sha2_256) [ (builtin serialiseData) {last} ] ] ]"
        ),
    };
    // A unique constant makes every script (hence its hash) distinct.
    let mut term = format!("[ (lam u {body}) (con integer {}) ]", s.unique);
    for i in (0..arity).rev() {
        term = format!("(lam a{i} {term})");
    }
    format!("(program 1.1.0 {term})")
}

pub struct Built {
    pub cbor: Vec<u8>,
    pub hash: [u8; 28],
}

fn build_script(s: &ScriptUse) -> Result<Built, String> {
    let src = script_source(s);
    let p = uplc::parser::program(&src).map_err(|e| format!("script source does not parse: {e} in {src}"))?;
    let db: Program<DeBruijn> = p.to_debruijn().map_err(|e| format!("{e}"))?;
    let cbor = db.to_cbor().map_err(|e| format!("{e}"))?;
    let h = blake2b(&[&[s.version], &cbor], 28);
    Ok(Built {
        cbor,
        hash: h.try_into().unwrap(),
    })
}

fn key_address(rng: &mut Rng) -> Vec<u8> {
    let mut a = vec![0x60];
    a.extend(rng.bytes(28));
    a
}

fn script_address(hash: &[u8; 28]) -> Vec<u8> {
    let mut a = vec![0x70];
    a.extend(hash);
    a
}

fn script_reward_account(hash: &[u8; 28]) -> Vec<u8> {
    let mut a = vec![0xF0];
    a.extend(hash);
    a
}

fn output(address: Vec<u8>, coin: u64, datum: Option<DatumOption>, script_ref: Option<(u8, Vec<u8>)>) -> TransactionOutput {
    PseudoTransactionOutput::PostAlonzo(PostAlonzoTransactionOutput {
        address: Bytes::from(address),
        value: TxValue::Coin(coin),
        datum_option: datum,
        script_ref: script_ref.map(|(v, cbor)| {
            CborWrap(match v {
                1 => PseudoScript::PlutusV1Script(PlutusScript::<1>(Bytes::from(cbor))),
                2 => PseudoScript::PlutusV2Script(PlutusScript::<2>(Bytes::from(cbor))),
                _ => PseudoScript::PlutusV3Script(PlutusScript::<3>(Bytes::from(cbor))),
            })
        }),
    })
}

fn int(n: i64) -> PlutusData {
    uplc::ast::Data::integer(n.into())
}

pub struct Assembled {
    pub tx_bytes: Vec<u8>,
    pub utxos: Vec<ResolvedInput>,
    /// The redeemers in the order `iter_redeemers` will visit them, with what each needs.
    pub plan: Vec<PlannedRedeemer>,
    pub dropped: String,
}

#[derive(Clone)]
pub struct PlannedRedeemer {
    pub tag: RedeemerTag,
    pub index: u32,
    pub data: PlutusData,
    pub script: usize,
    pub datum: Option<PlutusData>,
}

fn tag_name(t: &RedeemerTag) -> &'static str {
    match t {
        RedeemerTag::Spend => "spend",
        RedeemerTag::Mint => "mint",
        RedeemerTag::Cert => "cert",
        RedeemerTag::Reward => "reward",
        RedeemerTag::Vote => "vote",
        RedeemerTag::Propose => "propose",
    }
}

fn tag_order(t: &RedeemerTag) -> u8 {
    match t {
        RedeemerTag::Spend => 0,
        RedeemerTag::Mint => 1,
        RedeemerTag::Cert => 2,
        RedeemerTag::Reward => 3,
        RedeemerTag::Vote => 4,
        RedeemerTag::Propose => 5,
    }
}

/// Assemble the transaction, its resolved inputs and the reference plan.
pub fn assemble(sc: &Scenario) -> Result<Assembled, String> {
    let mut rng = Rng::new(sc.tx_seed);
    let built: Vec<Built> = sc.scripts.iter().map(build_script).collect::<Result<_, _>>()?;
    let mut inputs: Vec<TransactionInput> = vec![];
    let mut reference_inputs: Vec<TransactionInput> = vec![];
    let mut utxos: Vec<ResolvedInput> = vec![];
    let mut witness_scripts: Vec<(u8, Vec<u8>, usize)> = vec![];
    let mut witness_datums: Vec<(PlutusData, usize)> = vec![];
    let mut mint: Vec<([u8; 28], usize)> = vec![];
    // (is a key account, reward account bytes, script)
    let mut withdrawals: Vec<(bool, Vec<u8>, Option<usize>)> = vec![];
    let mut certs: Vec<(Certificate, Option<usize>)> = vec![];
    // (rank in the ledger's order of voters, hash, script)
    let mut voters: Vec<(u8, [u8; 28], Option<usize>)> = vec![];
    let mut proposals: Vec<([u8; 28], usize)> = vec![];
    // spend: (input, script idx, datum)
    let mut spends: Vec<(TransactionInput, usize, PlutusData)> = vec![];
    // Half of the inputs are siblings: further outputs of a transaction the body already refers
    // to, with output indices of different magnitudes, so that the canonical order of inputs is
    // decided by the index as a number (9 < 10 < 100, 255 < 256) and not only by the hash.
    let mut seen_inputs: Vec<TransactionInput> = vec![];
    let mut fresh_input = |rng: &mut Rng| loop {
        const INDICES: [u64; 12] = [0, 1, 2, 3, 9, 10, 11, 20, 99, 100, 255, 256];
        let transaction_id = if !seen_inputs.is_empty() && rng.below(2) == 0 {
            seen_inputs[rng.below(seen_inputs.len() as u64) as usize].transaction_id
        } else {
            pallas_crypto_hash32(&rng.bytes(32))
        };
        let candidate = TransactionInput { transaction_id, index: INDICES[rng.below(12) as usize] };
        if !seen_inputs.contains(&candidate) {
            seen_inputs.push(candidate.clone());
            break candidate;
        }
    };

    for (i, s) in sc.scripts.iter().enumerate() {
        let b = &built[i];
        if s.by_reference {
            let r = fresh_input(&mut rng);
            if s.on_spent_input {
                inputs.push(r.clone());
            } else {
                reference_inputs.push(r.clone());
            }
            utxos.push(ResolvedInput {
                input: r,
                output: output(key_address(&mut rng), 2_000_000, None, Some((s.version, b.cbor.clone()))),
            });
        } else {
            witness_scripts.push((s.version, b.cbor.clone(), i));
        }
        match &s.purpose {
            Purpose::Mint => mint.push((b.hash, i)),
            Purpose::Withdraw => withdrawals.push((false, script_reward_account(&b.hash), Some(i))),
            Purpose::Cert => certs.push((script_certificate(s.cert_kind, &b.hash, &mut Rng::new(sc.tx_seed ^ (0xce57 + i as u64))), Some(i))),
            Purpose::Vote => voters.push((if s.cert_kind % 2 == 1 { 0 } else { 2 }, b.hash, Some(i))),
            Purpose::Propose => proposals.push((b.hash, i)),
            Purpose::Spend { inline_datum } => {
                let input = fresh_input(&mut rng);
                let datum = uplc::ast::Data::constr(0, vec![int(i as i64), uplc::ast::Data::bytestring(rng.bytes(6))]);
                let datum_option = if *inline_datum {
                    DatumOption::Data(CborWrap(datum.clone()))
                } else {
                    let bytes = minicbor::to_vec(&datum).map_err(|e| e.to_string())?;
                    witness_datums.push((datum.clone(), i));
                    DatumOption::Hash(pallas_crypto_hash32(&blake2b(&[&bytes], 32)))
                };
                inputs.push(input.clone());
                utxos.push(ResolvedInput {
                    input: input.clone(),
                    output: output(script_address(&b.hash), 5_000_000, Some(datum_option), None),
                });
                spends.push((input, i, datum));
            }
        }
    }
    for _ in 0..sc.plain_inputs.max(1) {
        let input = fresh_input(&mut rng);
        inputs.push(input.clone());
        utxos.push(ResolvedInput {
            input,
            output: output(key_address(&mut rng), 10_000_000, None, None),
        });
    }
    // Canonical body order (what the ledger would see); indices follow it.
    // The ledger's order of inputs, stated here rather than taken from a derived `Ord`: by the
    // bytes of the transaction id, then by the output index as a number.
    inputs.sort_by(|a, b| (a.transaction_id.as_ref() as &[u8], a.index).cmp(&(b.transaction_id.as_ref() as &[u8], b.index)));
    inputs.dedup();
    mint.sort_by(|a, b| a.0.cmp(&b.0));
    {
        let mut r = Rng::new(sc.tx_seed ^ 0x7769_7468);
        for _ in 0..sc.noise_withdrawals {
            let mut a = vec![0xE0];
            a.extend(r.bytes(28));
            withdrawals.push((true, a, None));
        }
        for _ in 0..sc.noise_voters {
            let mut h = [0u8; 28];
            h.copy_from_slice(&r.bytes(28));
            voters.push((*r.pick(&[1u8, 3, 4]), h, None));
        }
    }
    // the ledger's order: script credentials before key credentials, then by hash; committee
    // voters before DReps before stake pools
    withdrawals.sort_by(|a, b| (a.0, &a.1).cmp(&(b.0, &b.1)));
    voters.sort_by(|a, b| (a.0, a.1).cmp(&(b.0, b.1)));

    let mut plan: Vec<PlannedRedeemer> = vec![];
    for (input, si, datum) in &spends {
        let index = inputs.iter().position(|i| i == input).unwrap() as u32;
        plan.push(PlannedRedeemer {
            tag: RedeemerTag::Spend,
            index,
            data: int(100 + *si as i64),
            script: *si,
            datum: Some(datum.clone()),
        });
    }
    for (pos, (_, si)) in mint.iter().enumerate() {
        plan.push(PlannedRedeemer {
            tag: RedeemerTag::Mint,
            index: pos as u32,
            data: int(200 + *si as i64),
            script: *si,
            datum: None,
        });
    }
    if sc.noise_certs > 0 {
        let mut r = Rng::new(sc.tx_seed ^ 0x6e6f_6973_65);
        for _ in 0..sc.noise_certs {
            let at = r.usize_below(certs.len() + 1);
            certs.insert(at, (noise_certificate(&mut r), None));
        }
    }
    for (pos, (_, si)) in certs.iter().enumerate() {
        let Some(si) = si else { continue };
        plan.push(PlannedRedeemer {
            tag: RedeemerTag::Cert,
            index: pos as u32,
            data: int(300 + *si as i64),
            script: *si,
            datum: None,
        });
    }
    for (pos, (_, _, si)) in withdrawals.iter().enumerate() {
        let Some(si) = si else { continue };
        plan.push(PlannedRedeemer {
            tag: RedeemerTag::Reward,
            index: pos as u32,
            data: int(400 + *si as i64),
            script: *si,
            datum: None,
        });
    }

    for (pos, (_, _, si)) in voters.iter().enumerate() {
        let Some(si) = si else { continue };
        plan.push(PlannedRedeemer {
            tag: RedeemerTag::Vote,
            index: pos as u32,
            data: int(500 + *si as i64),
            script: *si,
            datum: None,
        });
    }
    for (pos, (_, si)) in proposals.iter().enumerate() {
        plan.push(PlannedRedeemer {
            tag: RedeemerTag::Propose,
            index: pos as u32,
            data: int(600 + *si as i64),
            script: *si,
            datum: None,
        });
    }

    // The redeemer indices above follow the canonical (sorted) order; the body itself may list the
    // same entries in any order.
    if sc.permute_body != 0 {
        let mut r = Rng::new(sc.permute_body);
        r.shuffle(&mut mint);
        r.shuffle(&mut withdrawals);
        r.shuffle(&mut voters);
        r.shuffle(&mut inputs);
    }

    // ---- faults: drop one needed piece / add an extraneous redeemer
    let mut dropped = String::new();
    let mut redeemer_list: Vec<PlannedRedeemer> = plan.clone();
    match &sc.drop {
        Drop::None => {}
        Drop::Script(n) => {
            if !witness_scripts.is_empty() {
                let k = n % witness_scripts.len();
                let (_, _, si) = witness_scripts.remove(k);
                dropped = format!("script:{si}");
            } else if !reference_inputs.is_empty() {
                // drop the resolved reference input carrying a script
                let k = n % reference_inputs.len();
                let r = reference_inputs[k].clone();
                utxos.retain(|u| u.input != r);
                dropped = "reference-utxo".to_string();
            }
        }
        Drop::Datum(n) => {
            if !witness_datums.is_empty() {
                let k = n % witness_datums.len();
                let (_, si) = witness_datums.remove(k);
                dropped = format!("datum:{si}");
            }
        }
        Drop::ResolvedInput(n) => {
            let k = n % inputs.len();
            let i = inputs[k].clone();
            utxos.retain(|u| u.input != i);
            dropped = "resolved-input".to_string();
        }
        Drop::Redeemer(n) => {
            if !redeemer_list.is_empty() {
                let k = n % redeemer_list.len();
                let r = redeemer_list.remove(k);
                dropped = format!("redeemer:{}:{}", tag_name(&r.tag), r.index);
            }
        }
        Drop::ExtraRedeemer => {
            redeemer_list.push(PlannedRedeemer {
                tag: RedeemerTag::Mint,
                index: mint.len() as u32 + 3,
                data: int(999),
                script: 0,
                datum: None,
            });
            dropped = "extra-redeemer".to_string();
        }
    }

    // ---- caller-ordered collections: permute
    let mut r = Rng::new(sc.permute_utxos);
    if sc.permute_utxos != 0 {
        r.shuffle(&mut utxos);
    }
    let mut r = Rng::new(sc.permute_witnesses);
    if sc.permute_witnesses != 0 {
        r.shuffle(&mut witness_scripts);
        r.shuffle(&mut witness_datums);
    }
    let mut r = Rng::new(sc.permute_redeemers);
    if sc.permute_redeemers != 0 {
        r.shuffle(&mut redeemer_list);
    }

    let v1: Vec<PlutusScript<1>> = witness_scripts.iter().filter(|(v, _, _)| *v == 1).map(|(_, c, _)| PlutusScript::<1>(Bytes::from(c.clone()))).collect();
    let v2: Vec<PlutusScript<2>> = witness_scripts.iter().filter(|(v, _, _)| *v == 2).map(|(_, c, _)| PlutusScript::<2>(Bytes::from(c.clone()))).collect();
    let v3: Vec<PlutusScript<3>> = witness_scripts.iter().filter(|(v, _, _)| *v == 3).map(|(_, c, _)| PlutusScript::<3>(Bytes::from(c.clone()))).collect();
    let zero = ExUnits { mem: 0, steps: 0 };
    let redeemers = if redeemer_list.is_empty() {
        None
    } else if sc.redeemers_as_map {
        // a map cannot hold the same key twice; fall back to a list if keys collide
        let pairs: Vec<(RedeemersKey, RedeemersValue)> = redeemer_list
            .iter()
            .map(|r| (RedeemersKey { tag: r.tag, index: r.index }, RedeemersValue { data: r.data.clone(), ex_units: zero }))
            .collect();
        NonEmptyKeyValuePairs::from_vec(pairs).map(Redeemers::Map)
    } else {
        Some(Redeemers::List(MaybeIndefArray::Def(
            redeemer_list
                .iter()
                .map(|r| Redeemer { tag: r.tag, index: r.index, data: r.data.clone(), ex_units: zero })
                .collect(),
        )))
    };
    let witness_set = WitnessSet {
        vkeywitness: None,
        native_script: None,
        bootstrap_witness: None,
        plutus_v1_script: NonEmptySet::from_vec(v1),
        plutus_data: NonEmptySet::from_vec(witness_datums.iter().map(|(d, _)| d.clone()).collect()),
        redeemer: redeemers,
        plutus_v2_script: NonEmptySet::from_vec(v2),
        plutus_v3_script: NonEmptySet::from_vec(v3),
    };
    let one = pallas_codec::utils::NonZeroInt::try_from(1i64).map_err(|_| "nonzero")?;
    let body = TransactionBody {
        inputs: Set::from(inputs.clone()),
        outputs: vec![output(key_address(&mut rng), 1_000_000, None, None)],
        fee: 200_000,
        ttl: sc.validity.1,
        certificates: NonEmptySet::from_vec(certs.iter().map(|(c, _)| c.clone()).collect()),
        withdrawals: NonEmptyKeyValuePairs::from_vec(withdrawals.iter().map(|(_, a, _)| (Bytes::from(a.clone()), 0u64)).collect()),
        auxiliary_data_hash: None,
        validity_interval_start: sc.validity.0,
        mint: NonEmptyKeyValuePairs::from_vec(
            mint.iter()
                .map(|(h, _)| {
                    (
                        pallas_crypto_hash28(h),
                        NonEmptyKeyValuePairs::from_vec(vec![(Bytes::from(b"tok".to_vec()), one)]).unwrap(),
                    )
                })
                .collect(),
        ),
        script_data_hash: None,
        collateral: None,
        required_signers: None,
        network_id: None,
        collateral_return: None,
        total_collateral: None,
        reference_inputs: NonEmptySet::from_vec(reference_inputs.clone()),
        voting_procedures: NonEmptyKeyValuePairs::from_vec(
            voters
                .iter()
                .map(|(rank, h, si)| {
                    let h28 = pallas_crypto_hash28(h);
                    (
                        match rank {
                            0 => Voter::ConstitutionalCommitteeScript(h28),
                            1 => Voter::ConstitutionalCommitteeKey(h28),
                            2 => Voter::DRepScript(h28),
                            3 => Voter::DRepKey(h28),
                            _ => Voter::StakePoolKey(h28),
                        },
                        NonEmptyKeyValuePairs::from_vec(vec![(
                            GovActionId { transaction_id: pallas_crypto_hash32(&[si.unwrap_or(200) as u8 + 1; 32]), action_index: 0 },
                            VotingProcedure { vote: Vote::Yes, anchor: Nullable::Null },
                        )])
                        .unwrap(),
                    )
                })
                .collect(),
        ),
        proposal_procedures: NonEmptySet::from_vec(
            proposals
                .iter()
                .map(|(h, si)| ProposalProcedure {
                    deposit: 1_000_000 + *si as u64,
                    reward_account: Bytes::from(script_reward_account(h)),
                    gov_action: GovAction::TreasuryWithdrawals(
                        pallas_codec::utils::KeyValuePairs::from(vec![(Bytes::from(script_reward_account(h)), 5u64)]),
                        Nullable::Some(pallas_crypto_hash28(h)),
                    ),
                    anchor: Anchor { url: "https://example.invalid".into(), content_hash: pallas_crypto_hash32(&[7u8; 32]) },
                })
                .collect(),
        ),
        treasury_value: None,
        donation: None,
    };
    let tx = Tx {
        transaction_body: body,
        transaction_witness_set: witness_set,
        success: true,
        auxiliary_data: Nullable::Null,
    };
    let tx_bytes = minicbor::to_vec(&tx).map_err(|e| e.to_string())?;
    // The order in which the evaluator visits redeemers: list order, or key order for a map.
    let mut visit = redeemer_list;
    if sc.redeemers_as_map {
        // NonEmptyKeyValuePairs keeps insertion order; iter_redeemers iterates as stored.
    }
    let _ = &mut visit;
    Ok(Assembled {
        tx_bytes,
        utxos,
        plan: visit,
        dropped,
    })
}


fn some_anchor(rng: &mut Rng) -> Nullable<Anchor> {
    if rng.chance(1, 2) {
        Nullable::Some(Anchor { url: "https://example.invalid/a".into(), content_hash: pallas_crypto_hash32(&rng.bytes(32)) })
    } else {
        Nullable::Null
    }
}

fn rand28(rng: &mut Rng) -> pallas_crypto::hash::Hash<28> {
    let mut a = [0u8; 28];
    a.copy_from_slice(&rng.bytes(28));
    pallas_crypto::hash::Hash::from(a)
}

/// A credential that authorises nothing in the position it is put: a key hash, or the hash of a
/// script nobody supplies.
fn bystander(rng: &mut Rng) -> StakeCredential {
    if rng.chance(1, 2) { StakeCredential::AddrKeyhash(rand28(rng)) } else { StakeCredential::ScriptHash(rand28(rng)) }
}

fn some_drep(rng: &mut Rng) -> DRep {
    match rng.below(4) {
        0 => DRep::Key(rand28(rng)),
        1 => DRep::Script(rand28(rng)),
        2 => DRep::Abstain,
        _ => DRep::NoConfidence,
    }
}

pub const CERT_KINDS: u8 = 13;

/// The certificate of kind `kind` whose authorising credential (per the Conway ledger: the
/// stake credential of delegation / deregistration certificates, the DRep credential of DRep
/// certificates, the committee COLD credential of hot-key authorisation and resignation) is the
/// script `hash`; every other credential in it is a bystander.
fn script_certificate(kind: u8, hash: &[u8; 28], rng: &mut Rng) -> Certificate {
    let me = StakeCredential::ScriptHash(pallas_crypto_hash28(hash));
    let coin = 2_000_000u64;
    match kind % CERT_KINDS {
        0 => Certificate::StakeDeregistration(me),
        1 => Certificate::StakeDelegation(me, rand28(rng)),
        2 => Certificate::UnReg(me, coin),
        3 => Certificate::VoteDeleg(me, some_drep(rng)),
        4 => Certificate::StakeVoteDeleg(me, rand28(rng), some_drep(rng)),
        5 => Certificate::StakeRegDeleg(me, rand28(rng), coin),
        6 => Certificate::VoteRegDeleg(me, some_drep(rng), coin),
        7 => Certificate::StakeVoteRegDeleg(me, rand28(rng), some_drep(rng), coin),
        8 => Certificate::AuthCommitteeHot(me, bystander(rng)),
        9 => Certificate::ResignCommitteeCold(me, some_anchor(rng)),
        10 => Certificate::RegDRepCert(me, coin, some_anchor(rng)),
        11 => Certificate::UnRegDRepCert(me, coin),
        _ => Certificate::UpdateDRepCert(me, some_anchor(rng)),
    }
}

/// A certificate that needs no script at all.
fn noise_certificate(rng: &mut Rng) -> Certificate {
    let key = StakeCredential::AddrKeyhash(rand28(rng));
    match rng.below(8) {
        // legacy registration needs no witness, whatever the credential
        0 => Certificate::StakeRegistration(bystander(rng)),
        1 => Certificate::StakeDeregistration(key),
        2 => Certificate::StakeDelegation(key, rand28(rng)),
        3 => Certificate::PoolRetirement(rand28(rng), 400 + rng.below(100)),
        4 => Certificate::VoteDeleg(key, DRep::Script(rand28(rng))),
        // a script as the HOT credential authorises nothing: the cold one signs
        5 => Certificate::AuthCommitteeHot(key, StakeCredential::ScriptHash(rand28(rng))),
        6 => Certificate::UpdateDRepCert(key, some_anchor(rng)),
        _ => Certificate::UnReg(key, 2_000_000),
    }
}

fn pallas_crypto_hash32(b: &[u8]) -> pallas_crypto::hash::Hash<32> {
    let mut a = [0u8; 32];
    a.copy_from_slice(&b[..32]);
    pallas_crypto::hash::Hash::from(a)
}

fn pallas_crypto_hash28(b: &[u8; 28]) -> pallas_crypto::hash::Hash<28> {
    pallas_crypto::hash::Hash::from(*b)
}

fn cost_models_for(sc: &Scenario) -> CostModels {
    let mut cm = cost_models();
    match sc.missing_cost_model {
        Some(1) => cm.plutus_v1 = None,
        Some(2) => cm.plutus_v2 = None,
        Some(3) => cm.plutus_v3 = None,
        _ => {}
    }
    cm
}

fn cost_models() -> CostModels {
    CostModels {
        plutus_v1: Some(BuiltinCosts::DEFAULT_V1.to_vec()),
        // the ledger vectors the tree's conformance tests evaluate v2 / v3 programs with
        plutus_v2: Some(crate::budget::corpus().v2_costs.clone()),
        plutus_v3: Some(crate::budget::corpus().v3_costs.clone()),
    }
}

fn language(v: u8) -> Language {
    match v {
        1 => Language::PlutusV1,
        2 => Language::PlutusV2,
        _ => Language::PlutusV3,
    }
}

#[derive(Clone, Debug, PartialEq)]
pub struct RefStep {
    pub tag: &'static str,
    pub index: u32,
    pub ok: bool,
    pub cpu: i64,
    pub mem: i64,
}

/// The reference fold over the plan with an ample budget: per redeemer stand-alone cost and
/// verdict. `None` when the script context cannot be built (then the real code must error too).
fn reference_costs(sc: &Scenario, asm: &Assembled, tx: &MintedTx) -> Option<Vec<RefStep>> {
    let slot = SlotConfig {
        zero_time: sc.slot_config.0,
        zero_slot: sc.slot_config.1,
        slot_length: sc.slot_config.2,
    };
    let cm = cost_models();
    let mut out = vec![];
    for r in &asm.plan {
        let s = &sc.scripts[r.script];
        let b = build_script(s).ok()?;
        let mut buf = vec![];
        let program: Program<NamedDeBruijn> = Program::<uplc::ast::FakeNamedDeBruijn>::from_cbor(&b.cbor, &mut buf).ok()?.into();
        let info = match s.version {
            1 => TxInfoV1::from_transaction(tx, &asm.utxos, &slot),
            2 => TxInfoV2::from_transaction(tx, &asm.utxos, &slot),
            _ => TxInfoV3::from_transaction(tx, &asm.utxos, &slot),
        }
        .ok()?;
        let redeemer = Redeemer {
            tag: r.tag,
            index: r.index,
            data: r.data.clone(),
            ex_units: ExUnits { mem: 0, steps: 0 },
        };
        let ctx = info.into_script_context(&redeemer, r.datum.as_ref())?.to_plutus_data();
        let program = if s.version == 3 {
            program.apply_data(ctx)
        } else {
            let p = match &r.datum {
                Some(d) => program.apply_data(d.clone()),
                None => program,
            };
            p.apply_data(r.data.clone()).apply_data(ctx)
        };
        let lang = language(s.version);
        let big = ExBudget { cpu: 1_000_000_000_000, mem: 1_000_000_000_000 };
        let res = if sc.with_cost_models {
            let costs = match s.version {
                1 => cm.plutus_v1.as_ref(),
                2 => cm.plutus_v2.as_ref(),
                _ => cm.plutus_v3.as_ref(),
            }?;
            match sc.protocol {
                Some(pv) => program.eval_as_with_protocol(&lang, pv, costs, Some(&big)),
                None => program.eval_as(&lang, costs, Some(&big)),
            }
        } else {
            match sc.protocol {
                Some(pv) => program.eval_version_with_protocol(big, &lang, pv),
                None => program.eval_version(big, &lang),
            }
        };
        let cost = res.cost();
        out.push(RefStep {
            tag: tag_name(&r.tag),
            index: r.index,
            // the ledger's verdict, stated here independently of `EvalResult::failed`: no error, and
            // for Plutus V3 the result must be the unit constant
            ok: match res.result() {
                Err(_) => false,
                Ok(t) => s.version != 3 || matches!(&t, uplc::ast::Term::Constant(c) if matches!(c.as_ref(), uplc::ast::Constant::Unit)),
            },
            cpu: cost.cpu,
            mem: cost.mem,
        });
    }
    Some(out)
}

fn initial_budget(choice: &BudgetChoice, steps: &[RefStep]) -> Option<ExBudget> {
    let total_cpu: i64 = steps.iter().map(|s| s.cpu).sum();
    let total_mem: i64 = steps.iter().map(|s| s.mem).sum();
    match choice {
        BudgetChoice::Unspecified => None,
        BudgetChoice::Ample => Some(ExBudget { cpu: total_cpu + 1_000_000, mem: total_mem + 100_000 }),
        BudgetChoice::Exact => Some(ExBudget { cpu: total_cpu, mem: total_mem }),
        BudgetChoice::ShortCpu => Some(ExBudget { cpu: total_cpu - 1, mem: total_mem }),
        BudgetChoice::ShortMem => Some(ExBudget { cpu: total_cpu, mem: total_mem - 1 }),
        BudgetChoice::PrefixShort(n) => {
            let n = (*n).min(steps.len().saturating_sub(1));
            let cpu: i64 = steps.iter().take(n + 1).map(|s| s.cpu).sum();
            Some(ExBudget { cpu: cpu - 1, mem: total_mem + 100_000 })
        }
        BudgetChoice::MaxSingle => Some(ExBudget {
            cpu: steps.iter().map(|s| s.cpu).max().unwrap_or(0),
            mem: steps.iter().map(|s| s.mem).max().unwrap_or(0),
        }),
    }
}

#[derive(Clone, Debug, PartialEq)]
pub enum Expected {
    /// Every redeemer evaluates; per (tag, index): (cpu, mem).
    Success(BTreeMap<(String, u32), (i64, i64)>),
    /// Fails at this redeemer (tag, index); `budget` says whether for budget reasons.
    FailsAt { tag: String, index: u32, budget: bool },
    /// Must fail (a needed piece is missing / an extraneous redeemer is present).
    MustFail(String),
}

fn expected(sc: &Scenario, asm: &Assembled, steps: &[RefStep]) -> Expected {
    if !asm.dropped.is_empty() {
        return Expected::MustFail(asm.dropped.clone());
    }
    if sc.with_cost_models {
        if let Some(v) = sc.missing_cost_model {
            if sc.scripts.iter().any(|s| s.version == v) {
                return Expected::MustFail(format!("cost-model:v{v}"));
            }
        }
    }
    let budget = initial_budget(&sc.budget, steps).unwrap_or_default();
    let mut remaining = budget;
    let mut map = BTreeMap::new();
    for s in steps {
        if !s.ok {
            // a failing script fails the simulation at this redeemer — unless the budget runs out first
            let short = s.cpu > remaining.cpu || s.mem > remaining.mem;
            return Expected::FailsAt { tag: s.tag.into(), index: s.index, budget: short };
        }
        if s.cpu > remaining.cpu || s.mem > remaining.mem {
            return Expected::FailsAt { tag: s.tag.into(), index: s.index, budget: true };
        }
        remaining.cpu -= s.cpu;
        remaining.mem -= s.mem;
        map.insert((s.tag.to_string(), s.index), (s.cpu, s.mem));
    }
    Expected::Success(map)
}

pub struct Outcome {
    pub violations: Vec<(String, String)>,
    pub redeemers: usize,
    pub expected: String,
    pub budget_fired: bool,
    pub evals: usize,
}

fn noop(_: &Redeemer) {}

pub fn execute(sc: &Scenario) -> Result<Outcome, String> {
    let asm = assemble(sc)?;
    let tx: MintedTx = MintedTx::decode_fragment(&asm.tx_bytes).map_err(|e| format!("assembled tx does not decode: {e}"))?;
    let mut out = Outcome {
        violations: vec![],
        redeemers: asm.plan.len(),
        expected: String::new(),
        budget_fired: false,
        evals: 0,
    };
    // Reference costs are computed on the complete transaction (no piece dropped): when something
    // is dropped the expectation is simply "must fail".
    // A complete transaction for which no script context exists in some script's language (e.g. a
    // Plutus V2 script next to Conway voting / proposal procedures, which a V2 context cannot
    // express) must be refused, exactly like one with a missing piece.
    let mut no_context = false;
    let steps = if asm.dropped.is_empty() {
        match guard(|| reference_costs(sc, &asm, &tx)) {
            Ok(Some(s)) => s,
            Ok(None) => {
                no_context = true;
                vec![]
            }
            Err(p) => return Err(format!("reference panicked: {} @ {}", p.message, p.location)),
        }
    } else {
        vec![]
    };
    out.evals += steps.len();
    let exp = if no_context {
        Expected::MustFail("script-context:not expressible in a script's language".into())
    } else {
        expected(sc, &asm, &steps)
    };
    out.expected = match &exp {
        Expected::Success(_) => "success".into(),
        Expected::FailsAt { budget: true, .. } => "out-of-budget".into(),
        Expected::FailsAt { .. } => "script-failure".into(),
        Expected::MustFail(w) if w.starts_with("script-context") => "context-not-expressible".into(),
        Expected::MustFail(_) => "missing-piece".into(),
    };
    let slot = SlotConfig {
        zero_time: sc.slot_config.0,
        zero_slot: sc.slot_config.1,
        slot_length: sc.slot_config.2,
    };
    let cm = cost_models_for(sc);
    let budget = initial_budget(&sc.budget, &steps);
    let result = guard(|| match sc.protocol {
        Some(pv) => eval_phase_two_with_protocol(
            &tx,
            &asm.utxos,
            if sc.with_cost_models { Some(&cm) } else { None },
            budget.as_ref(),
            &slot,
            pv,
            sc.run_phase_one,
            noop,
        ),
        None => eval_phase_two(
            &tx,
            &asm.utxos,
            if sc.with_cost_models { Some(&cm) } else { None },
            budget.as_ref(),
            &slot,
            sc.run_phase_one,
            noop,
        ),
    });
    out.evals += asm.plan.len();
    // The bytes-in API (`eval_phase_two_raw*`, what bindings and `aiken tx simulate` feed) must
    // give the same answer as the typed one.
    if let (Some(b), Ok(typed)) = (budget.as_ref(), result.as_ref()) {
        let utxo_bytes: Vec<(Vec<u8>, Vec<u8>)> = asm
            .utxos
            .iter()
            .filter_map(|u| Some((u.input.encode_fragment().ok()?, u.output.encode_fragment().ok()?)))
            .collect();
        let cm_bytes = if sc.with_cost_models { cm.encode_fragment().ok() } else { None };
        if utxo_bytes.len() == asm.utxos.len() && b.cpu >= 0 && b.mem >= 0 {
            let raw = guard(|| match sc.protocol {
                Some(pv) => uplc::tx::eval_phase_two_raw_with_protocol(
                    &asm.tx_bytes,
                    &utxo_bytes,
                    cm_bytes.as_deref(),
                    (b.cpu as u64, b.mem as u64),
                    sc.slot_config,
                    pv,
                    sc.run_phase_one,
                    noop,
                ),
                None => uplc::tx::eval_phase_two_raw(
                    &asm.tx_bytes,
                    &utxo_bytes,
                    cm_bytes.as_deref(),
                    (b.cpu as u64, b.mem as u64),
                    sc.slot_config,
                    sc.run_phase_one,
                    noop,
                ),
            });
            out.evals += 1;
            let render_typed = match typed {
                Ok(rs) => format!("ok {:?}", rs.iter().map(|(r, _)| (tag_order(&r.tag), r.index, r.ex_units.steps, r.ex_units.mem)).collect::<Vec<_>>()),
                Err(_) => "err".to_string(),
            };
            let render_raw = match &raw {
                Err(p) => format!("panic {} @ {}", p.message, p.site()),
                Ok(Ok(rs)) => format!(
                    "ok {:?}",
                    rs.iter()
                        .map(|(bytes, _)| match Redeemer::decode_fragment(bytes) {
                            Ok(r) => (tag_order(&r.tag), r.index, r.ex_units.steps, r.ex_units.mem),
                            Err(_) => (9, 0, 0, 0),
                        })
                        .collect::<Vec<_>>()
                ),
                Ok(Err(_)) => "err".to_string(),
            };
            if render_typed != render_raw {
                out.violations.push((
                    "raw-api-differs".into(),
                    format!("eval_phase_two_raw on the encoded transaction / resolved inputs / cost models answers {render_raw}, the typed API answers {render_typed}"),
                ));
            }
        }
    }
    let describe = |r: &Result<Vec<(Redeemer, uplc::machine::eval_result::EvalResult)>, uplc::tx::error::Error>| match r {
        Ok(rs) => format!(
            "Ok({:?})",
            rs.iter().map(|(r, _)| format!("{}[{}] cpu={} mem={}", tag_name(&r.tag), r.index, r.ex_units.steps, r.ex_units.mem)).collect::<Vec<_>>()
        ),
        Err(e) => format!("Err({})", short(&format!("{e}").replace('\n', " "), 200)),
    };
    match result {
        Err(p) => out.violations.push((
            "panic".into(),
            format!("phase-two evaluation panicked: {} @ {}", p.message, p.location),
        )),
        Ok(res) => {
            match (&exp, &res) {
                (Expected::MustFail(what), Ok(_)) => {
                    // A dropped *datum* for a V3 script is legal (datum optional) — the assembler only
                    // drops hashed datums, which spend scripts of every version need resolved.
                    // Redeemer-set faults are only diagnosed by phase one.
                    let only_phase_one = what.starts_with("redeemer:") || what == "extra-redeemer";
                    if !(only_phase_one && !sc.run_phase_one && what.starts_with("redeemer:")) {
                        out.violations.push((
                            format!("silent-skip:{}", what.split(':').next().unwrap_or("")),
                            format!("the transaction lacks a needed piece ({what}) but the simulation reports success: {}", describe(&res)),
                        ));
                    }
                }
                (Expected::MustFail(_), Err(_)) => {}
                (Expected::Success(map), Ok(rs)) => {
                    let mut got = BTreeMap::new();
                    for (r, e) in rs {
                        let c = e.cost();
                        if c.cpu != r.ex_units.steps as i64 || c.mem != r.ex_units.mem as i64 {
                            out.violations.push((
                                "units-differ-from-cost".into(),
                                format!("{}[{}]: reported ex_units cpu={} mem={} but the evaluation cost cpu={} mem={}", tag_name(&r.tag), r.index, r.ex_units.steps, r.ex_units.mem, c.cpu, c.mem),
                            ));
                        }
                        got.insert((tag_name(&r.tag).to_string(), r.index), (r.ex_units.steps as i64, r.ex_units.mem as i64));
                    }
                    if &got != map {
                        out.violations.push((
                            "cost-differs-from-script-cost".into(),
                            format!("reported {got:?}, each script applied to its datum/redeemer/context costs {map:?}"),
                        ));
                    }
                }
                (Expected::Success(map), Err(_)) => {
                    out.violations.push((
                        "spurious-failure".into(),
                        format!(
                            "every script succeeds and the budget {:?} covers the total {:?}, but the simulation fails: {}",
                            budget.map(|b| (b.cpu, b.mem)),
                            (map.values().map(|v| v.0).sum::<i64>(), map.values().map(|v| v.1).sum::<i64>()),
                            describe(&res)
                        ),
                    ));
                }
                (Expected::FailsAt { tag, index, budget: is_budget }, Ok(_)) => {
                    out.violations.push((
                        if *is_budget { "budget-not-handed-over".to_string() } else { "failing-script-accepted".to_string() },
                        format!(
                            "{} at {tag}[{index}] (initial budget {:?}, stand-alone costs {:?}) but the simulation reports success: {}",
                            if *is_budget { "the budget left by the previous redeemers does not cover the script" } else { "the script fails" },
                            budget.map(|b| (b.cpu, b.mem)),
                            steps.iter().map(|s| (s.tag, s.index, s.cpu, s.mem)).collect::<Vec<_>>(),
                            describe(&res)
                        ),
                    ));
                }
                (Expected::FailsAt { tag, index, budget: is_budget }, Err(e)) => {
                    if *is_budget {
                        out.budget_fired = true;
                    }
                    // it must fail at that redeemer
                    if let uplc::tx::error::Error::RedeemerError { tag: t, index: i, .. } = e {
                        if t.to_lowercase() != *tag && !(tag == "reward" && t.to_lowercase().starts_with("withdraw")) && !(tag == "cert" && t.to_lowercase().starts_with("publish")) {
                            // tag naming differs between layers; compare indices only when names are comparable
                        }
                        let same_tag = t.to_lowercase() == *tag
                            || (tag == "reward" && t.to_lowercase().contains("withdraw"))
                            || (tag == "cert" && (t.to_lowercase().contains("publish") || t.to_lowercase().contains("cert")))
                            || (tag == "spend" && t.to_lowercase().contains("spend"))
                            || (tag == "mint" && t.to_lowercase().contains("mint"))
                            || (tag == "vote" && t.to_lowercase().contains("vot"))
                            || (tag == "propose" && t.to_lowercase().contains("propos"));
                        if !same_tag || i != index {
                            out.violations.push((
                                "fails-at-wrong-redeemer".into(),
                                format!("must fail at {tag}[{index}] but fails at {t}[{i}]: {}", short(&format!("{e}").replace('\n', " "), 160)),
                            ));
                        }
                    }
                }
            }
        }
    }
    Ok(out)
}

/// The same transaction under permutations of caller-ordered collections must give the same
/// answer (ample budget): returns a canonical rendering of the result.
fn answer(sc: &Scenario) -> Result<String, String> {
    let asm = assemble(sc)?;
    let tx: MintedTx = MintedTx::decode_fragment(&asm.tx_bytes).map_err(|e| format!("{e}"))?;
    let slot = SlotConfig { zero_time: sc.slot_config.0, zero_slot: sc.slot_config.1, slot_length: sc.slot_config.2 };
    let cm = cost_models_for(sc);
    let big = ExBudget { cpu: 1_000_000_000_000, mem: 1_000_000_000_000 };
    let res = guard(|| eval_phase_two(&tx, &asm.utxos, if sc.with_cost_models { Some(&cm) } else { None }, Some(&big), &slot, sc.run_phase_one, noop));
    Ok(match res {
        Err(p) => format!("panic {} @ {}", p.message, p.site()),
        Ok(Ok(rs)) => {
            let mut v: Vec<String> = rs.iter().map(|(r, e)| format!("{}[{}]={}/{}:{}", tag_name(&r.tag), r.index, r.ex_units.steps, r.ex_units.mem, e.result().is_ok())).collect();
            v.sort();
            format!("ok {v:?}")
        }
        Ok(Err(e)) => {
            // With the redeemers delivered in another order a transaction that has several
            // reasons to fail may legitimately meet another one first: only the verdict counts.
            if sc.permute_redeemers != 0 {
                "err".to_string()
            } else {
                let d = format!("{e:?}");
                format!("err {}", d.split(['(', ' ', '{']).next().unwrap_or(""))
            }
        }
    })
}

/// Validity bounds in the script context equal zero_time + (slot − zero_slot)·slot_length.
fn clock_class(msg: &str) -> &'static str {
    if msg.starts_with("validity range") { "clock" } else { "context-refused" }
}

fn check_clock(sc: &Scenario) -> Result<Option<String>, String> {
    let asm = assemble(sc)?;
    let tx: MintedTx = MintedTx::decode_fragment(&asm.tx_bytes).map_err(|e| format!("{e}"))?;
    let slot = SlotConfig { zero_time: sc.slot_config.0, zero_slot: sc.slot_config.1, slot_length: sc.slot_config.2 };
    let info = match guard(|| TxInfoV3::from_transaction(&tx, &asm.utxos, &slot)) {
        Ok(Ok(i)) => i,
        Ok(Err(e)) => {
            // legal only when a bound lies before the zero slot
            let early = sc.validity.0.map(|s| s < sc.slot_config.1).unwrap_or(false) || sc.validity.1.map(|s| s < sc.slot_config.1).unwrap_or(false);
            return Ok(if early { None } else { Some(format!("script context refused: {e}")) });
        }
        Err(p) => return Ok(Some(format!("panic building the context: {} @ {}", p.message, p.location))),
    };
    let uplc::tx::script_context::TxInfo::V3(v3) = info else {
        return Ok(None);
    };
    let expect = |s: Option<u64>| s.map(|s| sc.slot_config.0 + (s - sc.slot_config.1) * sc.slot_config.2 as u64);
    let got = (v3.valid_range.lower_bound, v3.valid_range.upper_bound);
    let want = (expect(sc.validity.0), expect(sc.validity.1));
    if got != want {
        return Ok(Some(format!("validity range in the context is {got:?}, slots {:?} under zero_time={} zero_slot={} slot_length={} give {want:?}", sc.validity, sc.slot_config.0, sc.slot_config.1, sc.slot_config.2)));
    }
    Ok(None)
}

fn gen_scenario(rng: &mut Rng) -> Scenario {
    let with_v1 = rng.chance(1, 4);
    let n = 1 + rng.usize_below(4);
    let mut scripts = vec![];
    for i in 0..n {
        let version = if with_v1 { *rng.pick(&[1u8, 1, 2]) } else { *rng.pick(&[2u8, 3, 3]) };
        let purpose = match rng.below(8) {
            0 | 1 => Purpose::Mint,
            2 | 3 => Purpose::Spend { inline_datum: !with_v1 && rng.chance(1, 2) },
            4 => Purpose::Withdraw,
            5 => Purpose::Cert,
            6 if version == 3 => Purpose::Vote,
            7 if version == 3 => Purpose::Propose,
            _ => Purpose::Mint,
        };
        let behaviour = match rng.below(10) {
            0 => Behaviour::Fail,
            1 if rng.chance(1, 2) => if rng.chance(1, 2) { Behaviour::ReturnFalse } else { Behaviour::ReturnTrue },
            1..=3 => Behaviour::Ok,
            4..=7 => Behaviour::Burn(rng.range(1, 400) as u32),
            8 if version >= 2 => Behaviour::HashCtx,
            9 if version <= 2 => Behaviour::ConsWrap,
            _ if version >= 2 => Behaviour::HashCtx,
            _ => Behaviour::Burn(7),
        };
        scripts.push(ScriptUse {
            version,
            behaviour,
            cert_kind: if purpose == Purpose::Cert {
                // Conway-only certificates have no Plutus V1/V2 script context
                if version == 3 { rng.below(CERT_KINDS as u64) as u8 } else { rng.below(2) as u8 }
            } else if purpose == Purpose::Vote {
                // odd: the script votes as a committee member, even: as a DRep
                rng.below(2) as u8
            } else {
                0
            },
            purpose,
            on_spent_input: false,
            by_reference: !with_v1 && rng.chance(1, 4),
            unique: rng.below(1 << 30) as u32 + i as u32,
        });
    }
    let zero_slot = *rng.pick(&[0u64, 100, 4492800]);
    let slot_config = (
        *rng.pick(&[0u64, 1596059091000, 1_000_000]),
        zero_slot,
        *rng.pick(&[1000u32, 1, 20_000]),
    );
    let lower = if rng.chance(1, 2) { Some(zero_slot + rng.below(10_000)) } else { None };
    let upper = if rng.chance(1, 2) { Some(lower.unwrap_or(zero_slot) + rng.below(10_000)) } else { None };
    let drop = match rng.below(12) {
        0 => Drop::Script(rng.usize_below(8)),
        1 => Drop::Datum(rng.usize_below(8)),
        2 => Drop::ResolvedInput(rng.usize_below(8)),
        3 => Drop::Redeemer(rng.usize_below(8)),
        4 => Drop::ExtraRedeemer,
        _ => Drop::None,
    };
    let budget = match rng.below(10) {
        0 | 1 => BudgetChoice::Unspecified,
        2 => BudgetChoice::Exact,
        3 => BudgetChoice::ShortCpu,
        4 => BudgetChoice::ShortMem,
        5 | 6 => BudgetChoice::PrefixShort(rng.usize_below(4)),
        7 => BudgetChoice::MaxSingle,
        _ => BudgetChoice::Ample,
    };
    for s in scripts.iter_mut() {
        s.on_spent_input = s.by_reference && rng.chance(1, 3);
    }
    let all_v3 = scripts.iter().all(|s| s.version == 3);
    Scenario {
        scripts,
        plain_inputs: rng.usize_below(3),
        tx_seed: rng.next_u64(),
        validity: (lower, upper),
        slot_config,
        with_cost_models: rng.chance(1, 2),
        missing_cost_model: if rng.chance(1, 8) { Some(1 + rng.below(3) as u8) } else { None },
        protocol: if rng.chance(1, 2) { Some(rng.range(8, 11) as u16) } else { None },
        budget,
        drop,
        permute_utxos: 0,
        permute_witnesses: 0,
        permute_redeemers: 0,
        redeemers_as_map: rng.chance(1, 2),
        run_phase_one: rng.chance(3, 4),
        permute_body: if rng.chance(1, 2) { rng.next_u64() | 1 } else { 0 },
        noise_certs: if all_v3 && rng.chance(1, 2) { 1 + rng.below(3) as u8 } else { 0 },
        noise_withdrawals: if rng.chance(1, 2) { 1 + rng.below(2) as u8 } else { 0 },
        noise_voters: if all_v3 && rng.chance(1, 2) { 1 + rng.below(3) as u8 } else { 0 },
    }
}

fn report(ctx: &mut RunCtx, sc: &Scenario, violations: &[(String, String)], minimised: bool) {
    let mut seen = std::collections::BTreeSet::new();
    for (class, detail) in violations {
        if !seen.insert(class.clone()) {
            continue;
        }
        let sig = if class == "panic" {
            let site = detail.rsplit(" @ ").next().map(|s| s.strip_prefix("/repo/crates/").unwrap_or(s).to_string()).unwrap_or_default();
            format!("panic|site={site}")
        } else {
            format!("{class}|cost_models={}|budget={}", sc.with_cost_models, match sc.budget { BudgetChoice::Unspecified => "unspecified", _ => "given" })
        };
        ctx.violation(
            PROP,
            class,
            sig,
            format!(
                "transaction with {} script(s) {:?}, cost models {}, protocol {:?}, budget {:?}, drop {:?}, phase-one {}{}: {detail}",
                sc.scripts.len(),
                sc.scripts.iter().map(|s| format!("v{} {:?} {:?}{}", s.version, s.purpose, s.behaviour, if s.by_reference && s.on_spent_input { " by-ref-on-spent-input" } else if s.by_reference { " by-ref" } else { "" })).collect::<Vec<_>>(),
                if sc.with_cost_models { "supplied" } else { "absent" },
                sc.protocol,
                sc.budget,
                sc.drop,
                sc.run_phase_one,
                if minimised { " [minimised]" } else { "" }
            ),
            json!({ "scenario": sc }),
        );
    }
}

fn minimise(sc: &Scenario, classes: &[String]) -> Scenario {
    let still = |c: &Scenario| {
        execute(c)
            .map(|o| o.violations.iter().any(|(cl, _)| classes.contains(cl)))
            .unwrap_or(false)
    };
    let mut best = sc.clone();
    // fewer scripts
    let mut i = 0;
    while best.scripts.len() > 1 && i < best.scripts.len() {
        let mut c = best.clone();
        c.scripts.remove(i);
        if still(&c) {
            best = c;
        } else {
            i += 1;
        }
    }
    for f in [
        |c: &mut Scenario| c.plain_inputs = 0,
        |c: &mut Scenario| c.permute_body = 0,
        |c: &mut Scenario| c.validity = (None, None),
        |c: &mut Scenario| c.protocol = None,
        |c: &mut Scenario| c.redeemers_as_map = false,
        |c: &mut Scenario| c.slot_config = (0, 0, 1000),
    ] {
        let mut c = best.clone();
        f(&mut c);
        if c != best && still(&c) {
            best = c;
        }
    }
    // simpler behaviours
    for i in 0..best.scripts.len() {
        if let Behaviour::Burn(k) = best.scripts[i].behaviour {
            if k > 1 {
                let mut c = best.clone();
                c.scripts[i].behaviour = Behaviour::Burn(1);
                if still(&c) {
                    best = c;
                }
            }
        }
    }
    best
}

impl Engine for TxEngine {
    fn property(&self) -> &'static str {
        PROP
    }
    fn name(&self) -> &'static str {
        "sim-tx"
    }
    fn engine_id(&self) -> u64 {
        19
    }
    fn runs(&self, tier: Tier) -> u64 {
        match tier {
            Tier::Quick => 1600,
            Tier::Thorough => 60000,
        }
    }

    fn run(&self, ctx: &mut RunCtx) {
        let n = match ctx.tier {
            Tier::Quick => 10,
            Tier::Thorough => 16,
        };
        for _ in 0..n {
            let sc = gen_scenario(&mut ctx.rng);
            ctx.event(&format!("scenario {}", serde_json::to_string(&sc).unwrap()));
            let outcome = match guard(|| execute(&sc)) {
                Ok(Ok(o)) => o,
                Ok(Err(e)) => {
                    ctx.harness_error(format!("{e} — scenario {}", serde_json::to_string(&sc).unwrap()));
                    continue;
                }
                Err(p) => {
                    ctx.harness_error(format!("harness panicked: {} @ {}", p.message, p.location));
                    continue;
                }
            };
            ctx.stats.inc("evaluations", outcome.evals as u64 + 1);
            ctx.logical_steps += outcome.redeemers as u64;
            ctx.stats.inc("transactions", 1);
            ctx.stats.inc("redeemers", outcome.redeemers as u64);
            ctx.stats.inc(&format!("expected_{}", outcome.expected), 1);
            if outcome.budget_fired {
                ctx.stats.inc("budget_exhaustion_fired", 1);
            }
            ctx.stats.inc(&format!("drop_{}", match sc.drop { Drop::None => "none", Drop::Script(_) => "script", Drop::Datum(_) => "datum", Drop::ResolvedInput(_) => "resolved_input", Drop::Redeemer(_) => "redeemer", Drop::ExtraRedeemer => "extra_redeemer" }), 1);
            ctx.stats.inc(if sc.with_cost_models { "cost_models_supplied" } else { "cost_models_absent" }, 1);
            for s in &sc.scripts {
                ctx.stats.inc(&format!("script_v{}", s.version), 1);
                ctx.stats.inc(&format!("purpose_{}", match s.purpose { Purpose::Mint => "mint", Purpose::Spend { inline_datum: true } => "spend_inline_datum", Purpose::Spend { .. } => "spend_hashed_datum", Purpose::Withdraw => "withdraw", Purpose::Cert => "publish", Purpose::Vote => "vote", Purpose::Propose => "propose" }), 1);
                if s.by_reference {
                    ctx.stats.inc("reference_scripts", 1);
                }
            }
            ctx.stats.add("scenarios", hash_str(&serde_json::to_string(&sc).unwrap()));
            let mut violations = outcome.violations.clone();
            ctx.event(&format!("expected={} violations={}", outcome.expected, violations.len()));

            // Delivery-order independence (complete transactions, ample budget).
            if matches!(sc.drop, Drop::None) {
                let base = answer(&sc);
                for _ in 0..2 {
                    let mut p = sc.clone();
                    p.permute_utxos = ctx.rng.next_u64() | 1;
                    p.permute_witnesses = ctx.rng.next_u64() | 1;
                    if ctx.rng.chance(1, 2) {
                        p.permute_redeemers = ctx.rng.next_u64() | 1;
                    }
                    let a = answer(&p);
                    ctx.stats.inc("permutations", 1);
                    ctx.stats.inc("evaluations", 1);
                    let base = if p.permute_redeemers != 0 {
                        // compare verdicts only (see `answer`)
                        base.clone().map(|b| if b.starts_with("err") { "err".to_string() } else { b })
                    } else {
                        base.clone()
                    };
                    if a != base {
                        violations.push((
                            "order-dependent".into(),
                            format!("supplying resolved inputs / witness scripts / datums{} in another order changes the answer: {:?} vs {:?}", if p.permute_redeemers != 0 { " / redeemers" } else { "" }, base, a),
                        ));
                        // keep the permuted scenario as the trace
                        if violations.len() == 1 {
                            report(ctx, &p, &violations, false);
                            violations.clear();
                        }
                        break;
                    }
                }
                // Clock configuration.
                match check_clock(&sc) {
                    Ok(Some(msg)) => violations.push((clock_class(&msg).into(), msg)),
                    Ok(None) => ctx.stats.inc("clock_checks", 1),
                    Err(e) => ctx.harness_error(e),
                }
            }
            if !violations.is_empty() {
                let classes: Vec<String> = violations.iter().map(|(c, _)| c.clone()).collect();
                let min = if classes.iter().any(|c| c == "clock" || c == "context-refused" || c == "order-dependent") { sc.clone() } else { minimise(&sc, &classes) };
                if min != sc {
                    if let Ok(o) = execute(&min) {
                        if !o.violations.is_empty() {
                            report(ctx, &min, &o.violations, true);
                            continue;
                        }
                    }
                }
                report(ctx, &sc, &violations, false);
            }
            if ctx.k % 211 == 0 && ctx.stats.samples.len() < 3 {
                ctx.stats.sample(json!({ "scenario": sc, "expected": outcome.expected }));
            }
        }
    }

    fn replay(&self, trace: &Value, ctx: &mut RunCtx) {
        let Some(sc) = trace
            .get("scenario")
            .and_then(|s| serde_json::from_value::<Scenario>(s.clone()).ok())
        else {
            ctx.harness_error("replay: no scenario".into());
            return;
        };
        let mut violations = vec![];
        match guard(|| execute(&sc)) {
            Ok(Ok(o)) => violations.extend(o.violations),
            Ok(Err(e)) => ctx.harness_error(e),
            Err(p) => ctx.harness_error(format!("replay panicked: {} @ {}", p.message, p.location)),
        }
        if matches!(sc.drop, Drop::None) {
            if sc.permute_utxos != 0 || sc.permute_witnesses != 0 || sc.permute_redeemers != 0 {
                let mut base = sc.clone();
                base.permute_utxos = 0;
                base.permute_witnesses = 0;
                base.permute_redeemers = 0;
                let (a, b) = (answer(&base), answer(&sc));
                let a = if sc.permute_redeemers != 0 { a.map(|x| if x.starts_with("err") { "err".to_string() } else { x }) } else { a };
                if a != b {
                    violations.push(("order-dependent".into(), format!("{a:?} vs {b:?}")));
                }
            }
            if let Ok(Some(msg)) = check_clock(&sc) {
                violations.push((clock_class(&msg).into(), msg));
            }
        }
        report(ctx, &sc, &violations, false);
    }

    fn evidence(&self, stats: &Stats, _tier: Tier) -> EvidenceParts {
        let pick = |prefix: &str| -> BTreeMap<String, u64> {
            stats
                .counters
                .iter()
                .filter(|(k, _)| k.starts_with(prefix))
                .map(|(k, v)| (k.trim_start_matches(prefix).to_string(), *v))
                .collect()
        };
        EvidenceParts {
            level: "exploration",
            evaluations: stats.get("evaluations"),
            distinct_nontrivial: stats.distinct("scenarios"),
            rule: "one case = one synthetic Conway transaction assembled with pallas-primitives from building blocks of known behaviour (always-ok / always-fail / burn-k loop / hash-the-context scripts for Plutus V1, V2, V3; purposes spend with hashed or inline datum, mint, withdraw, publish; scripts in the witness set or behind reference inputs; 0-2 extra key inputs), encoded and re-decoded as MintedTx, evaluated by the real eval_phase_two(_with_protocol) under one fault: {none | drop a needed script / datum / resolved input / redeemer | extraneous redeemer} and one budget choice {unspecified, ample, exact total, total−1 cpu, total−1 mem, prefix sum−1, max single script} with cost models supplied or absent, protocol 8-11 or unspecified, redeemers as list or map, phase one on/off; complete transactions are re-evaluated under permuted resolved inputs / witness sets / redeemer lists and their validity bounds checked against the slot configuration. distinct = distinct scenarios; non-trivial = all (every scenario carries at least one script)".into(),
            extra: json!({
                "transactions": stats.get("transactions"),
                "redeemers_evaluated": stats.get("redeemers"),
                "expected_outcomes": pick("expected_"),
                "fault_kinds": pick("drop_"),
                "budget_exhaustion_fired_at_the_expected_redeemer": stats.get("budget_exhaustion_fired"),
                "cost_models": { "supplied": stats.get("cost_models_supplied"), "absent": stats.get("cost_models_absent") },
                "script_versions": pick("script_v"),
                "purposes": pick("purpose_"),
                "reference_scripts": stats.get("reference_scripts"),
                "delivery_order_permutations": stats.get("permutations"),
                "clock_checks": stats.get("clock_checks"),
                "components": {
                    "real": ["uplc::tx::{eval_phase_two, eval_phase_two_with_protocol}", "eval_phase_one", "DataLookupTable", "find_script", "TxInfoV1/V2/V3, ScriptContext, to_plutus_data", "CEK machine"],
                    "simulated": ["the transaction and its environment: delivery order of resolved inputs / witness scripts / datums / redeemers, missing pieces, initial budget, cost-model presence, protocol version, slot configuration"],
                    "stubbed": []
                }
            }),
            assumptions: vec![
                "script-context content comes from the real TxInfo (content is other properties' territory); the reference is independent where C19 speaks: argument selection per version, cost reporting, budget hand-over, failure conditions, order independence".into(),
                "vote and propose purposes and recorded mainnet transactions are not generated".into(),
            ],
        }
    }

    fn hang_bound(&self, _tier: Tier) -> std::time::Duration {
        std::time::Duration::from_secs(240)
    }
}
