//! Seam for the process's entropy: std's `RandomState` (SipHash keys of every `HashMap` /
//! `HashSet`) asks the C library's `getrandom`. The binary exports its own `getrandom`, which
//! shadows libc's; while a *hash epoch* is set, every thread derives its bytes from
//! `(epoch, thread name, per-thread call counter)` and nothing else, so the iteration order of
//! every hash map created during a run is a pure function of the run's seed. With no epoch set
//! the real system call is made.
//!
//! Only one run executes at a time in a process (parallelism is across worker processes), so a
//! process-global epoch is sound.

use crate::rng::{fnv, splitmix};
use std::cell::Cell;
use std::sync::atomic::{AtomicU64, Ordering};

static EPOCH: AtomicU64 = AtomicU64::new(0);
static CALLS: AtomicU64 = AtomicU64::new(0);

thread_local! {
    static COUNTER: Cell<u64> = const { Cell::new(0) };
}

pub fn set_epoch(epoch: u64) {
    EPOCH.store(epoch, Ordering::SeqCst);
}

pub fn clear_epoch() {
    EPOCH.store(0, Ordering::SeqCst);
}

/// How many times the override served bytes (reach probe: proves the seam is live).
pub fn served() -> u64 {
    CALLS.load(Ordering::SeqCst)
}

fn thread_tag() -> u64 {
    let mut buf = [0u8; 32];
    // SAFETY: buffer is valid and large enough (Linux thread names are <= 16 bytes with NUL).
    let rc = unsafe {
        libc::pthread_getname_np(
            libc::pthread_self(),
            buf.as_mut_ptr() as *mut libc::c_char,
            buf.len(),
        )
    };
    if rc != 0 {
        return 0;
    }
    let len = buf.iter().position(|b| *b == 0).unwrap_or(buf.len());
    fnv(&buf[..len])
}

/// Shadows libc's `getrandom`. Signature per getrandom(2).
///
/// # Safety
/// `buf` must point to `buflen` writable bytes, as for the C function.
#[unsafe(no_mangle)]
pub unsafe extern "C" fn getrandom(
    buf: *mut libc::c_void,
    buflen: libc::size_t,
    flags: libc::c_uint,
) -> libc::ssize_t {
    let epoch = EPOCH.load(Ordering::SeqCst);
    if epoch == 0 {
        // SAFETY: forwarding the caller's contract to the kernel.
        return unsafe { libc::syscall(libc::SYS_getrandom, buf, buflen, flags) as libc::ssize_t };
    }
    CALLS.fetch_add(1, Ordering::Relaxed);
    let n = COUNTER.with(|c| {
        let v = c.get();
        c.set(v + 1);
        v
    });
    let mut state = splitmix(epoch ^ thread_tag().rotate_left(17) ^ n.rotate_left(41));
    // SAFETY: per the contract, buf points to buflen writable bytes.
    let out = unsafe { std::slice::from_raw_parts_mut(buf as *mut u8, buflen) };
    for chunk in out.chunks_mut(8) {
        state = splitmix(state);
        let bytes = state.to_le_bytes();
        chunk.copy_from_slice(&bytes[..chunk.len()]);
    }
    buflen as libc::ssize_t
}

/// Order in which a fresh std HashMap iterates eight fixed keys on the calling thread: the
/// harness uses it to prove the seam works (same epoch ⇒ same order, different epochs ⇒ some
/// different orders).
pub fn probe_order() -> Vec<u32> {
    let mut m = std::collections::HashMap::new();
    for i in 0..8u32 {
        m.insert(format!("module_{i}"), i);
    }
    m.values().copied().collect()
}
