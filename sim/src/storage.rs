//! C20 `sim-storage` (storage-fault subset): malformed input is rejected with an error, not a
//! crash.
//!
//! Every decoder entry point reads an artefact that the tool-chain itself (or a peer tool) wrote to
//! disk: plutus.json, *.uplc, flat / CBOR / hex scripts, .ak sources, aiken.toml, parameter CBOR.
//! The failure model is "what was written is not what is read": truncated, torn between two
//! genuine versions, bit-flipped, a zeroed / duplicated / deleted / swapped block, appended
//! garbage. Producers and consumers are the real code; the simulator owns the bytes at rest.
//!
//! Oracle: the consumer returns Ok or Err. Violations: panic (caught, with location), process
//! abort / stack overflow on an 8 MiB stack (the worker dies; the driver attributes it), no return
//! within the wall bound. A value that comes back Ok is passed once through the next consumer in
//! the tool chain under the same oracle.

use crate::common::*;
use crate::driver::{Engine, EvidenceParts};
use crate::genproj;
use crate::hashseed;
use crate::project::*;
use crate::rng::Rng;
use aiken_lang::ast::ModuleKind;
use aiken_project::Project;
use aiken_project::config::ProjectConfig;
use serde::{Deserialize, Serialize};
use serde_json::{Value, json};
use std::sync::OnceLock;
use uplc::ast::{DeBruijn, FakeNamedDeBruijn, Name, NamedDeBruijn, Program};

pub struct StorageEngine;

const PROP: &str = "C20";
/// The stack `aiken` itself runs on.
const CONSUMER_STACK: usize = 8 << 20;

#[derive(Clone, Copy, Debug, PartialEq, Eq, Serialize, Deserialize, PartialOrd, Ord)]
pub enum Kind {
    Blueprint,
    Flat,
    Cbor,
    Hex,
    UplcText,
    AikenLib,
    AikenValidator,
    Toml,
    DataCbor,
}

impl Kind {
    fn is_text(&self) -> bool {
        matches!(
            self,
            Kind::Blueprint
                | Kind::Hex
                | Kind::UplcText
                | Kind::AikenLib
                | Kind::AikenValidator
                | Kind::Toml
        )
    }
    fn tag(&self) -> &'static str {
        match self {
            Kind::Blueprint => "plutus.json",
            Kind::Flat => "flat",
            Kind::Cbor => "cbor",
            Kind::Hex => "hex",
            Kind::UplcText => "uplc-text",
            Kind::AikenLib => "ak-lib",
            Kind::AikenValidator => "ak-validator",
            Kind::Toml => "aiken.toml",
            Kind::DataCbor => "data-cbor",
        }
    }
}

#[derive(Clone, Debug)]
pub struct Artefact {
    pub kind: Kind,
    pub id: String,
    pub bytes: Vec<u8>,
    /// Another genuine version of the same artefact (for torn writes).
    pub alt: Option<Vec<u8>>,
    /// Byte ranges worth biasing faults towards (e.g. compiledCode values inside JSON).
    pub hot: Vec<(usize, usize)>,
}

#[derive(Clone, Debug, Serialize, Deserialize, PartialEq)]
pub enum Fault {
    Truncate(usize),
    FlipBit(usize),
    SetByte(usize, u8),
    ZeroRange(usize, usize),
    DupRange(usize, usize),
    DelRange(usize, usize),
    SwapBlocks(usize, usize, usize),
    Append(Vec<u8>),
    /// First `k` bytes from the other version, the rest from this one.
    Torn(usize),
    /// Line-granular block faults (text artefacts): a block of whole lines written twice, lost, or
    /// landing in the wrong place.
    DupLines(usize, usize),
    DelLines(usize, usize),
    MoveLines(usize, usize, usize),
    /// One character of a text artefact comes back as a multi-byte character (a re-encoding
    /// accident: U+FFFD written for an unreadable byte, a smart quote, an accented letter): the
    /// text stays valid UTF-8 but byte offsets no longer equal character offsets.
    WideChar(usize, u8),
}

const WIDE: [&str; 6] = ["\u{FFFD}", "é", "€", "𝄞", "éé", "’"];

impl Fault {
    fn kind(&self) -> &'static str {
        match self {
            Fault::Truncate(_) => "truncate",
            Fault::FlipBit(_) => "bit-flip",
            Fault::SetByte(_, _) => "byte-stuck",
            Fault::ZeroRange(_, _) => "zeroed-range",
            Fault::DupRange(_, _) => "duplicated-range",
            Fault::DelRange(_, _) => "deleted-range",
            Fault::SwapBlocks(_, _, _) => "swapped-blocks",
            Fault::Append(_) => "appended-garbage",
            Fault::Torn(_) => "torn-write",
            Fault::DupLines(_, _) => "duplicated-lines",
            Fault::DelLines(_, _) => "deleted-lines",
            Fault::MoveLines(_, _, _) => "moved-lines",
            Fault::WideChar(_, _) => "wide-character",
        }
    }
}

pub fn apply_fault(bytes: &[u8], alt: Option<&[u8]>, f: &Fault) -> Vec<u8> {
    let n = bytes.len();
    let mut v = bytes.to_vec();
    match f {
        Fault::Truncate(k) => v.truncate((*k).min(n)),
        Fault::FlipBit(b) => {
            if n > 0 {
                let i = (b / 8) % n;
                v[i] ^= 1 << (b % 8);
            }
        }
        Fault::SetByte(i, x) => {
            if n > 0 {
                v[i % n] = *x;
            }
        }
        Fault::ZeroRange(a, l) => {
            if n > 0 {
                let a = a % n;
                let e = (a + l).min(n);
                for b in &mut v[a..e] {
                    *b = 0;
                }
            }
        }
        Fault::DupRange(a, l) => {
            if n > 0 {
                let a = a % n;
                let e = (a + l).min(n);
                let chunk = v[a..e].to_vec();
                let mut out = v[..e].to_vec();
                out.extend(chunk);
                out.extend(&v[e..]);
                v = out;
            }
        }
        Fault::DelRange(a, l) => {
            if n > 0 {
                let a = a % n;
                let e = (a + l).min(n);
                v.drain(a..e);
            }
        }
        Fault::SwapBlocks(a, b, l) => {
            if n > 1 {
                let l = (*l).max(1);
                let a = a % n;
                let b = b % n;
                let (a, b) = if a <= b { (a, b) } else { (b, a) };
                let l = l.min(b - a).min(n - b);
                for i in 0..l {
                    v.swap(a + i, b + i);
                }
            }
        }
        Fault::Append(g) => v.extend(g),
        Fault::WideChar(at, which) => {
            if n > 0 {
                let wide = WIDE[*which as usize % WIDE.len()].as_bytes();
                let mut a = at % n;
                // the whole character at that position (valid UTF-8 stays valid)
                while a > 0 && (v[a] & 0xC0) == 0x80 {
                    a -= 1;
                }
                let mut e = a + 1;
                while e < n && (v[e] & 0xC0) == 0x80 {
                    e += 1;
                }
                v.splice(a..e, wide.iter().copied());
            }
        }
        Fault::DupLines(a, l) | Fault::DelLines(a, l) | Fault::MoveLines(a, l, _) => {
            // split keeping the terminators
            let mut lines: Vec<&[u8]> = bytes.split_inclusive(|b| *b == b'\n').collect();
            if !lines.is_empty() {
                let a = a % lines.len();
                let e = (a + (*l).max(1)).min(lines.len());
                match f {
                    Fault::DupLines(_, _) => {
                        let block: Vec<&[u8]> = lines[a..e].to_vec();
                        for (i, b) in block.into_iter().enumerate() {
                            lines.insert(e + i, b);
                        }
                    }
                    Fault::DelLines(_, _) => {
                        lines.drain(a..e);
                    }
                    Fault::MoveLines(_, _, to) => {
                        let block: Vec<&[u8]> = lines.drain(a..e).collect();
                        let to = if lines.is_empty() { 0 } else { to % (lines.len() + 1) };
                        for (i, b) in block.into_iter().enumerate() {
                            lines.insert(to + i, b);
                        }
                    }
                    _ => {}
                }
                v = lines.concat();
            }
        }
        Fault::Torn(k) => {
            if let Some(alt) = alt {
                let k = (*k).min(alt.len());
                let mut out = alt[..k].to_vec();
                if k < n {
                    out.extend(&v[k..]);
                }
                v = out;
            }
        }
    }
    v
}

// ------------------------------------------------------------------------------------------
// Artefact corpus (producers: the real tool-chain)

static CORPUS: OnceLock<Vec<Artefact>> = OnceLock::new();

fn hot_ranges(json: &str, key: &str) -> Vec<(usize, usize)> {
    let mut out = vec![];
    let needle = format!("\"{key}\": \"");
    let mut from = 0;
    while let Some(i) = json[from..].find(&needle) {
        let start = from + i + needle.len();
        if let Some(len) = json[start..].find('"') {
            out.push((start, start + len));
            from = start + len;
        } else {
            break;
        }
    }
    out
}

fn build_blueprints(seed: u64) -> Vec<(String, String, String)> {
    // (project id, blueprint built silent, blueprint built verbose)
    let mut out = vec![];
    for i in 0..3u64 {
        let mut rng = Rng::new(seed ^ (i * 7919 + 13));
        let spec = genproj::generate(&mut rng).spec;
        let id = spec.id.clone();
        hashseed::set_epoch(0x5707_0001 + i);
        let r = with_pool(1, move || {
            let disk = RunDisk::new();
            disk.materialize(&spec, &identity_order(&spec));
            let mut versions = vec![];
            for lvl in [0u8, 2u8] {
                let mut opts = Opts::default_check();
                opts.trace_level = lvl;
                opts.all_types = lvl == 2;
                if let Ok((mut p, _)) = new_project(&disk.root) {
                    versions.push(do_build(&mut p, &disk.root, &opts).blueprint);
                }
            }
            versions
        });
        hashseed::clear_epoch();
        if r.len() == 2 && !r[0].is_empty() && !r[1].is_empty() {
            out.push((id, r[0].clone(), r[1].clone()));
        }
    }
    out
}

pub fn corpus() -> &'static Vec<Artefact> {
    CORPUS.get_or_init(|| {
        let mut arts: Vec<Artefact> = vec![];
        // --- blueprints and everything derived from their compiled code
        for (id, a, b) in build_blueprints(0xC20) {
            let mut hot = hot_ranges(&a, "compiledCode");
            hot.extend(hot_ranges(&a, "hash"));
            hot.extend(hot_ranges(&a, "$ref"));
            arts.push(Artefact {
                kind: Kind::Blueprint,
                id: format!("{id}/plutus.json"),
                bytes: a.clone().into_bytes(),
                alt: Some(b.clone().into_bytes()),
                hot,
            });
            let codes_a = hot_ranges(&a, "compiledCode");
            let codes_b = hot_ranges(&b, "compiledCode");
            let mut seen = std::collections::BTreeSet::new();
            for (n, (s, e)) in codes_a.iter().enumerate() {
                let hexs = &a[*s..*e];
                if !seen.insert(hexs.to_string()) || seen.len() > 3 {
                    continue;
                }
                let alt_hex = codes_b.get(n).map(|(s, e)| b[*s..*e].to_string());
                arts.push(Artefact {
                    kind: Kind::Hex,
                    id: format!("{id}/validator{n}.hex"),
                    bytes: hexs.as_bytes().to_vec(),
                    alt: alt_hex.clone().map(|h| h.into_bytes()),
                    hot: vec![],
                });
                let Ok(cbor) = hex::decode(hexs) else { continue };
                let alt_cbor = alt_hex.and_then(|h| hex::decode(h).ok());
                arts.push(Artefact {
                    kind: Kind::Cbor,
                    id: format!("{id}/validator{n}.cbor"),
                    bytes: cbor.clone(),
                    alt: alt_cbor.clone(),
                    hot: vec![(0, 8.min(cbor.len()))],
                });
                let mut buf = vec![];
                if let Ok(p) = Program::<DeBruijn>::from_cbor(&cbor, &mut buf) {
                    if let Ok(flat) = p.to_flat() {
                        arts.push(Artefact {
                            kind: Kind::Flat,
                            id: format!("{id}/validator{n}.flat"),
                            bytes: flat,
                            alt: None,
                            hot: vec![],
                        });
                    }
                    if let Ok(named) = Program::<Name>::try_from(p) {
                        arts.push(Artefact {
                            kind: Kind::UplcText,
                            id: format!("{id}/validator{n}.uplc"),
                            bytes: named.to_pretty().into_bytes(),
                            alt: None,
                            hot: vec![],
                        });
                    }
                }
            }
        }
        // --- small programs of the conformance corpus: text, and their flat / cbor / hex forms
        let conf = crate::budget::corpus();
        for (i, p) in conf.programs.iter().enumerate() {
            // every 23rd program, plus a denser sample of those whose text exercises the richer
            // parts of the grammar (strings with escapes, data, lists / pairs, BLS elements)
            let rich = ["con string", "con data", "con (list", "con (pair", "bls12_381", "(constr", "(case"]
                .iter()
                .any(|k| p.code.contains(k));
            if !(i % 23 == 0 || (rich && i % 5 == 0)) {
                continue;
            }
            arts.push(Artefact {
                kind: Kind::UplcText,
                id: format!("conformance/{}", p.id),
                bytes: p.code.clone().into_bytes(),
                alt: None,
                hot: vec![],
            });
            if let Ok(Ok(prog)) = guard(|| uplc::parser::program(&p.code)) {
                if let Ok(db) = prog.to_debruijn() {
                    if let (Ok(flat), Ok(cbor), Ok(hexs)) = (db.to_flat(), db.to_cbor(), db.to_hex()) {
                        if i % 46 == 0 {
                            arts.push(Artefact { kind: Kind::Flat, id: format!("conformance/{}.flat", p.id), bytes: flat, alt: None, hot: vec![] });
                            arts.push(Artefact { kind: Kind::Cbor, id: format!("conformance/{}.cbor", p.id), bytes: cbor, alt: None, hot: vec![] });
                            arts.push(Artefact { kind: Kind::Hex, id: format!("conformance/{}.hex", p.id), bytes: hexs.into_bytes(), alt: None, hot: vec![] });
                        }
                    }
                }
            }
        }
        // --- Aiken sources and manifests shipped in the tree
        let acc = acceptance_projects();
        for (i, proj) in acc.iter().enumerate() {
            if i % 3 == 0 {
                for (path, code) in proj.files.iter().take(2) {
                    arts.push(Artefact {
                        kind: if path.starts_with("validators") { Kind::AikenValidator } else { Kind::AikenLib },
                        id: format!("{}/{}", proj.id, path),
                        bytes: code.clone().into_bytes(),
                        alt: None,
                        hot: vec![],
                    });
                }
            }
            if proj.toml.contains("[config") || i % 25 == 0 {
                arts.push(Artefact {
                    kind: Kind::Toml,
                    id: format!("{}/aiken.toml", proj.id),
                    bytes: proj.toml.clone().into_bytes(),
                    alt: None,
                    hot: vec![],
                });
            }
        }
        // the manifest `aiken new` writes (ProjectConfig::default + save)
        {
            let disk = RunDisk::new();
            let name = aiken_project::package_name::PackageName { owner: "sim".into(), repo: "fresh".into() };
            let cfg = ProjectConfig::default(&name);
            if cfg.save(&disk.root).is_ok() {
                if let Ok(t) = std::fs::read_to_string(disk.root.join("aiken.toml")) {
                    arts.push(Artefact { kind: Kind::Toml, id: "aiken-new/aiken.toml".into(), bytes: t.into_bytes(), alt: None, hot: vec![] });
                }
            }
        }
        for extra in ["examples/hello_world/aiken.toml", "examples/gift_card/aiken.toml"] {
            if let Ok(t) = std::fs::read_to_string(format!("{REPO_DIR}/{extra}")) {
                arts.push(Artefact { kind: Kind::Toml, id: extra.into(), bytes: t.into_bytes(), alt: None, hot: vec![] });
            }
        }
        {
            let mut rng = Rng::new(0xC20A);
            let spec = genproj::generate(&mut rng).spec;
            for (path, code) in spec.files.iter() {
                arts.push(Artefact {
                    kind: if path.starts_with("validators") { Kind::AikenValidator } else { Kind::AikenLib },
                    id: format!("generated/{path}"),
                    bytes: code.clone().into_bytes(),
                    alt: None,
                    hot: vec![],
                });
            }
        }
        // --- parameter data
        for (i, hexs) in [
            "d8799f182a4568656c6c6fff",
            "9f0102031864ff",
            "a2410101410202",
            "d8799fd87a80d8799f1a000f4240ffff",
            "c24a01000000000000000000",
            "d905039f0102ff",
            "5f5840aaaaaaaaaaaaaaaaaaaaaaaaaaaaaaaaaaaaaaaaaaaaaaaaaaaaaaaaaaaaaaaaaaaaaaaaaaaaaaaaaaaaaaaaaaaaaaaaaaaaaaaaaaaaaaaaaaaaaaaaaaaaaaaaaaaa4101ff",
        ]
        .iter()
        .enumerate()
        {
            if let Ok(b) = hex::decode(hexs) {
                arts.push(Artefact { kind: Kind::DataCbor, id: format!("data/{i}"), bytes: b, alt: None, hot: vec![] });
            }
        }
        arts
    })
}

// ------------------------------------------------------------------------------------------
// Consumers

#[derive(Clone, Debug, PartialEq)]
pub enum Verdict {
    /// Rejected before reaching the decoder the way the tool does (e.g. invalid UTF-8 from
    /// `fs::read_to_string`).
    RejectedAtRead,
    Err,
    /// Accepted; the value went through the follow-up consumers without incident.
    Ok,
    Panic { entry: String, info: PanicInfo },
}

fn follow<T>(entry: &str, f: impl FnOnce() -> T) -> Result<T, Verdict> {
    guard(f).map_err(|info| Verdict::Panic {
        entry: entry.to_string(),
        info,
    })
}

/// Feed `bytes` to the consumer(s) of `kind`, as the tool-chain would read them from disk.
pub fn consume(kind: Kind, bytes: &[u8], scratch: &std::path::Path) -> Verdict {
    macro_rules! step {
        ($entry:expr, $body:expr) => {
            match follow($entry, || $body) {
                Ok(v) => v,
                Err(p) => return p,
            }
        };
    }
    if kind.is_text() && std::str::from_utf8(bytes).is_err() && kind != Kind::Blueprint {
        return Verdict::RejectedAtRead;
    }
    match kind {
        Kind::Blueprint => {
            let path = scratch.join("plutus.json");
            if std::fs::write(&path, bytes).is_err() {
                return Verdict::RejectedAtRead;
            }
            let loaded = step!("Project::blueprint", Project::<Capture>::blueprint(&path));
            let Ok(bp) = loaded else {
                return Verdict::Err;
            };
            step!("Blueprint -> script hashes", {
                for v in bp.validators.iter() {
                    let _ = v.program.compiled_code_and_hash();
                    let _ = v.get_module_and_name();
                }
            });
            step!("serde_json::to_string(Blueprint)", {
                let _ = serde_json::to_string_pretty(&bp);
            });
            let title_parts: Option<(String, String)> = bp.validators.first().map(|v| {
                let (m, n) = v.get_module_and_name();
                (m.to_string(), n.to_string())
            });
            if let Some((m, n)) = title_parts {
                for param in [
                    uplc::ast::Data::integer(42.into()),
                    uplc::ast::Data::bytestring(vec![1, 2, 3]),
                    uplc::ast::Data::constr(0, vec![uplc::ast::Data::bytestring(vec![7]), uplc::ast::Data::integer(1.into())]),
                    uplc::ast::Data::list(vec![uplc::ast::Data::integer(1.into())]),
                ] {
                    let mut copy = bp.clone();
                    let applied = step!(
                        "Blueprint::apply_parameter (loaded blueprint)",
                        copy.apply_parameter(Some(&m), Some(&n), &param)
                    );
                    if applied.is_ok() {
                        step!("serde_json::to_string(applied Blueprint)", {
                            let _ = serde_json::to_string_pretty(&copy);
                        });
                        break;
                    }
                }
            }
            Verdict::Ok
        }
        Kind::Flat => {
            let r = step!("Program<DeBruijn>::from_flat", Program::<DeBruijn>::from_flat(bytes).map(|p| p.to_flat().map(|f| f.len())));
            let r2 = step!("Program<FakeNamedDeBruijn>::from_flat", Program::<FakeNamedDeBruijn>::from_flat(bytes).is_ok());
            match r {
                Ok(_) => {
                    step!("decoded flat -> named -> pretty", {
                        if let Ok(p) = Program::<DeBruijn>::from_flat(bytes) {
                            let n: Program<NamedDeBruijn> = p.clone().into();
                            let _ = format!("{}", n.to_pretty().len());
                            if let Ok(named) = Program::<Name>::try_from(p) {
                                let _ = named.to_pretty();
                            }
                        }
                    });
                    Verdict::Ok
                }
                Err(_) => {
                    let _ = r2;
                    Verdict::Err
                }
            }
        }
        Kind::Cbor => {
            let ok = step!("Program<DeBruijn>::from_cbor", {
                let mut buf = vec![];
                Program::<DeBruijn>::from_cbor(bytes, &mut buf)
                    .map(|p| {
                        let _ = p.to_cbor();
                        let _ = p.to_hex();
                    })
                    .is_ok()
            });
            step!("Program<FakeNamedDeBruijn>::from_cbor", {
                let mut buf = vec![];
                let _ = Program::<FakeNamedDeBruijn>::from_cbor(bytes, &mut buf).is_ok();
            });
            if ok {
                step!("decoded cbor -> named -> pretty", {
                    let mut buf = vec![];
                    if let Ok(p) = Program::<DeBruijn>::from_cbor(bytes, &mut buf) {
                        if let Ok(named) = Program::<Name>::try_from(p) {
                            let _ = named.to_pretty();
                        }
                    }
                });
                Verdict::Ok
            } else {
                Verdict::Err
            }
        }
        Kind::Hex => {
            let s = String::from_utf8_lossy(bytes).to_string();
            let ok = step!("Program<DeBruijn>::from_hex", {
                let mut a = vec![];
                let mut b = vec![];
                Program::<DeBruijn>::from_hex(s.trim(), &mut a, &mut b)
                    .map(|p| {
                        let _ = p.to_hex();
                    })
                    .is_ok()
            });
            if ok { Verdict::Ok } else { Verdict::Err }
        }
        Kind::UplcText => {
            let s = String::from_utf8_lossy(bytes).to_string();
            let parsed = step!("uplc::parser::program", uplc::parser::program(&s));
            let _ = step!(
                "uplc::parser::program_with_canonical_value_literals",
                uplc::parser::program_with_canonical_value_literals(&s).is_ok()
            );
            match parsed {
                Ok(p) => {
                    step!("parsed uplc -> pretty / debruijn / flat", {
                        let _ = p.to_pretty();
                        if let Ok(db) = p.clone().to_debruijn() {
                            let _ = db.to_flat();
                            let _ = db.to_hex();
                        }
                    });
                    Verdict::Ok
                }
                Err(_) => Verdict::Err,
            }
        }
        Kind::AikenLib | Kind::AikenValidator => {
            let s = String::from_utf8_lossy(bytes).to_string();
            let mk = if kind == Kind::AikenLib { ModuleKind::Lib } else { ModuleKind::Validator };
            let parsed = step!("aiken_lang::parser::module", aiken_lang::parser::module(&s, mk));
            // the `aiken fmt --check` path on a file
            let file = scratch.join("lib").join("m.ak");
            let _ = std::fs::create_dir_all(file.parent().unwrap());
            if std::fs::write(&file, bytes).is_ok() {
                step!("aiken_project::format::run(check)", {
                    let _ = aiken_project::format::run(false, true, vec![file.to_string_lossy().to_string()]);
                });
            }
            match parsed {
                Ok((module, extra)) => {
                    let out = step!("aiken_lang::format::pretty", {
                        let mut out = String::new();
                        aiken_lang::format::pretty(&mut out, module, extra, &s);
                        out
                    });
                    // formatted text is what `aiken fmt` writes back: it is read again next time
                    step!("parser::module(formatted output)", {
                        let _ = aiken_lang::parser::module(&out, mk);
                    });
                    Verdict::Ok
                }
                Err(_) => Verdict::Err,
            }
        }
        Kind::Toml => {
            let dir = scratch.join("cfg");
            let _ = std::fs::create_dir_all(&dir);
            if std::fs::write(dir.join("aiken.toml"), bytes).is_err() {
                return Verdict::RejectedAtRead;
            }
            let r = step!("ProjectConfig::load", ProjectConfig::load(&dir));
            match r {
                Ok(cfg) => {
                    step!("ProjectConfig -> toml / config definitions", {
                        let _ = toml_string(&cfg);
                    });
                    Verdict::Ok
                }
                Err(_) => Verdict::Err,
            }
        }
        Kind::DataCbor => {
            let r = step!("uplc::plutus_data", uplc::plutus_data(bytes));
            match r {
                Ok(d) => {
                    step!("PlutusData -> hex / term", {
                        let _ = uplc::ast::Data::to_hex(d.clone());
                        let _ = uplc::plutus_data_to_bytes(&d);
                        let t: uplc::ast::Term<Name> = uplc::ast::Term::data(d);
                        let _ = t.to_pretty();
                    });
                    Verdict::Ok
                }
                Err(_) => Verdict::Err,
            }
        }
    }
}

fn toml_string(cfg: &ProjectConfig) -> String {
    format!("{:?}", cfg.name) + &format!("{:?}", cfg.config.len())
}

// ------------------------------------------------------------------------------------------

/// Exhaustive tier: every truncation point and every single-bit flip of every artefact of at
/// most `EXHAUSTIVE_MAX` bytes, cut into chunks of `CHUNK` cases so that one run stays short.
const EXHAUSTIVE_MAX: usize = 4096;
const CHUNK: usize = 2500;

fn exhaustive_plan() -> Vec<(usize, usize)> {
    // (artefact index, chunk index)
    let mut plan = vec![];
    for (i, a) in corpus().iter().enumerate() {
        if a.bytes.len() <= EXHAUSTIVE_MAX && !a.bytes.is_empty() {
            let cases = a.bytes.len() * if a.kind.is_text() { 10 } else { 9 };
            for c in 0..cases.div_ceil(CHUNK) {
                plan.push((i, c));
            }
        }
    }
    plan
}

fn exhaustive_case(a: &Artefact, n: usize) -> Option<Fault> {
    let len = a.bytes.len();
    if n < len {
        Some(Fault::Truncate(n))
    } else if n < len * 9 {
        Some(Fault::FlipBit(n - len))
    } else if n < len * 10 && a.kind.is_text() {
        Some(Fault::WideChar(n - len * 9, 0))
    } else {
        None
    }
}

const RANDOM_RUNS_THOROUGH: u64 = 3200;

fn gen_fault(rng: &mut Rng, a: &Artefact) -> Fault {
    let n = a.bytes.len().max(1);
    // Bias half of the positions into the hot regions.
    let pos = |rng: &mut Rng| -> usize {
        if !a.hot.is_empty() && rng.chance(1, 2) {
            let (s, e) = *rng.pick(&a.hot);
            if e > s {
                return s + rng.usize_below(e - s);
            }
        }
        rng.usize_below(n)
    };
    if a.kind.is_text() && rng.chance(1, 6) {
        // The same fault kinds with positions aligned to a quoted string: its content lost,
        // cut short, or written twice (a block boundary falling on a token boundary).
        let quotes: Vec<usize> = a.bytes.iter().enumerate().filter(|(_, b)| **b == b'"').map(|(i, _)| i).collect();
        if quotes.len() >= 2 {
            let mut q = rng.usize_below(quotes.len() - 1);
            // half of the time a literal introduced by a sigil (`#"…"`, `@"…"`), if there is one
            let sigils: Vec<usize> = (0..quotes.len() - 1).filter(|i| quotes[*i] > 0 && matches!(a.bytes[quotes[*i] - 1], b'#' | b'@')).collect();
            if !sigils.is_empty() && rng.chance(1, 2) {
                q = *rng.pick(&sigils);
            }
            let (open, close) = (quotes[q], quotes[q + 1]);
            if close > open + 1 {
                let len = close - open - 1;
                return match rng.below(6) {
                    4 | 5 => Fault::WideChar(open + 1 + rng.usize_below(len), rng.below(WIDE.len() as u64) as u8),
                    0 => Fault::DelRange(open + 1, len),
                    1 => Fault::DelRange(open + 2, len.saturating_sub(1).max(1)),
                    2 => Fault::DupRange(open + 1, len),
                    _ => Fault::ZeroRange(open + 1, len),
                };
            }
        }
    }
    if a.kind.is_text() && rng.chance(1, 4) {
        let lines = a.bytes.iter().filter(|b| **b == b'\n').count().max(1);
        let at = rng.usize_below(lines);
        let len = 1 + rng.usize_below(3);
        return match rng.below(3) {
            0 => Fault::DupLines(at, len),
            1 => Fault::DelLines(at, len),
            _ => Fault::MoveLines(at, len, rng.usize_below(lines)),
        };
    }
    if a.kind.is_text() && rng.chance(1, 12) {
        return Fault::WideChar(pos(rng), rng.below(WIDE.len() as u64) as u8);
    }
    match rng.below(if a.alt.is_some() { 12 } else { 11 }) {
        0 | 1 => Fault::Truncate(pos(rng)),
        2..=4 => {
            let p = pos(rng);
            // text artefacts: keep half of the flips inside the 7-bit range so the result stays UTF-8
            let bit = if a.kind.is_text() && rng.chance(3, 4) { rng.usize_below(7) } else { rng.usize_below(8) };
            Fault::FlipBit(p * 8 + bit)
        }
        5 => Fault::SetByte(pos(rng), *rng.pick(&[0x00u8, 0x7f, 0x80, 0xff, b'"', b'(', b'[', b'0'])),
        6 => Fault::ZeroRange(pos(rng), 1 + rng.usize_below(64)),
        7 => Fault::DupRange(pos(rng), 1 + rng.usize_below(128)),
        8 => Fault::DelRange(pos(rng), 1 + rng.usize_below(64)),
        9 => Fault::SwapBlocks(pos(rng), pos(rng), 1 + rng.usize_below(32)),
        10 => {
            let l = 1 + rng.usize_below(16);
            Fault::Append(if a.kind.is_text() {
                (0..l).map(|_| *rng.pick(b"{}[]()\",:#x01 \n")).collect()
            } else {
                rng.bytes(l)
            })
        }
        _ => {
            let alt_len = a.alt.as_ref().map(|b| b.len()).unwrap_or(1).max(1);
            // torn at a 512-byte boundary half of the time
            if rng.chance(1, 2) && alt_len > 512 {
                Fault::Torn(512 * (1 + rng.usize_below(alt_len / 512)))
            } else {
                Fault::Torn(rng.usize_below(alt_len))
            }
        }
    }
}

/// Known-finding key: entry point + panic site + the constant part of the message (everything
/// before the first quote, digit run or colon-separated payload), so that a different crash of
/// the same property is still reported while the same one is recognised whatever the input was.
fn panic_signature(_kind: Kind, entry: &str, info: &PanicInfo) -> String {
    let msg = info.message.replace('\n', " ");
    let cut = msg
        .find(['"', '\''])
        .unwrap_or(msg.len())
        .min(msg.find(char::is_numeric).unwrap_or(msg.len()));
    let mut end = cut.min(60);
    while !msg.is_char_boundary(end) {
        end -= 1;
    }
    format!(
        "panic|entry={entry}|site={}|msg={}",
        info.site(),
        msg[..end].trim()
    )
}

fn check_bytes(
    ctx: &mut RunCtx,
    a_kind: Kind,
    a_id: &str,
    faults: &[Fault],
    bytes: &[u8],
    scratch: &std::path::Path,
) -> Verdict {
    let v = consume(a_kind, bytes, scratch);
    ctx.stats.inc("evaluations", 1);
    ctx.logical_steps += 1;
    match &v {
        Verdict::RejectedAtRead => ctx.stats.inc("rejected_at_read_invalid_utf8", 1),
        Verdict::Err => ctx.stats.inc("rejected_with_error", 1),
        Verdict::Ok => ctx.stats.inc("still_accepted", 1),
        Verdict::Panic { entry, info } => {
            ctx.stats.inc("panics", 1);
            ctx.violation(
                PROP,
                "panic",
                panic_signature(a_kind, entry, info),
                format!(
                    "{} of {} after storage fault(s) {:?}: {entry} panicked: {} @ {} ({} bytes read)",
                    a_kind.tag(),
                    a_id,
                    faults,
                    info.message,
                    info.location,
                    bytes.len()
                ),
                json!({ "kind": a_kind, "artefact": a_id, "faults": faults, "bytes_hex": hex::encode(bytes) }),
            );
        }
    }
    v
}

/// Shrink the corrupted bytes while the same panic signature persists (ddmin over chunks).
fn minimise_bytes(kind: Kind, bytes: &[u8], sig: &str, scratch: &std::path::Path) -> Vec<u8> {
    let still = |b: &[u8]| match consume(kind, b, scratch) {
        Verdict::Panic { entry, info } => panic_signature(kind, &entry, &info) == sig,
        _ => false,
    };
    let mut best = bytes.to_vec();
    let mut chunk = best.len() / 2;
    let mut budget = 400;
    while chunk >= 1 && budget > 0 {
        let mut i = 0;
        let mut progressed = false;
        while i < best.len() && budget > 0 {
            let e = (i + chunk).min(best.len());
            let mut c = best[..i].to_vec();
            c.extend(&best[e..]);
            budget -= 1;
            if !c.is_empty() && still(&c) {
                best = c;
                progressed = true;
            } else {
                i += chunk;
            }
        }
        if !progressed {
            chunk /= 2;
        }
    }
    best
}

fn on_consumer_stack<T: Send + 'static>(f: impl FnOnce() -> T + Send + 'static) -> Result<T, PanicInfo> {
    let h = std::thread::Builder::new()
        .name("consumer".into())
        .stack_size(CONSUMER_STACK)
        .spawn(move || guard(f))
        .expect("spawn consumer thread");
    match h.join() {
        Ok(r) => r,
        Err(_) => Err(PanicInfo { message: "<consumer thread died>".into(), location: "<unknown>".into() }),
    }
}

impl Engine for StorageEngine {
    fn property(&self) -> &'static str {
        PROP
    }
    fn name(&self) -> &'static str {
        "sim-storage"
    }
    fn engine_id(&self) -> u64 {
        20
    }
    fn runs(&self, tier: Tier) -> u64 {
        match tier {
            Tier::Quick => 640,
            Tier::Thorough => RANDOM_RUNS_THOROUGH + exhaustive_plan().len() as u64,
        }
    }
    fn selfcheck_runs(&self, tier: Tier) -> u64 {
        match tier {
            Tier::Quick => 16,
            Tier::Thorough => 48,
        }
    }

    fn run(&self, ctx: &mut RunCtx) {
        let arts = corpus();
        if arts.len() < 40 {
            ctx.harness_error(format!("artefact corpus too small: {}", arts.len()));
            return;
        }
        // Runs walk the corpus round-robin so every artefact is visited; thorough runs in the
        // second half enumerate every truncation point and every single-bit flip of artefacts
        // up to 4 KiB.
        let chunk: Option<(usize, usize)> = if ctx.tier == Tier::Thorough && ctx.k >= RANDOM_RUNS_THOROUGH {
            exhaustive_plan().get((ctx.k - RANDOM_RUNS_THOROUGH) as usize).copied()
        } else {
            None
        };
        let a = match chunk {
            Some((i, _)) => arts[i].clone(),
            None => {
                // one run in four works on a plutus.json (the consumer chain behind it is the
                // longest: JSON → schemas → hex → CBOR → flat → hash check → apply → re-serialise)
                let blueprints: Vec<&Artefact> = arts.iter().filter(|a| a.kind == Kind::Blueprint).collect();
                if ctx.k % 4 == 0 && !blueprints.is_empty() {
                    blueprints[((ctx.k / 4) as usize) % blueprints.len()].clone()
                } else {
                    arts[(ctx.k as usize) % arts.len()].clone()
                }
            }
        };
        let exhaustive = chunk.is_some();
        let cases = match ctx.tier {
            Tier::Quick => 150,
            Tier::Thorough => 400,
        };
        ctx.stats.inc(&format!("artefacts_{}", a.kind.tag()), 1);
        ctx.stats.add("artefacts", hash_str(&a.id));
        ctx.event(&format!("artefact {} {} {} bytes exhaustive={exhaustive}", a.kind.tag(), a.id, a.bytes.len()));
        let mut rng = ctx.rng.clone();
        let k = ctx.k;
        let tier = ctx.tier;
        let seed_k = ctx.seed_k;
        // The whole batch runs on one 8 MiB-stack thread (the stack aiken's CLI decodes on).
        let res = on_consumer_stack(move || {
            let mut inner = RunCtx::new(k, seed_k, tier);
            let disk = RunDisk::new();
            // The unfaulted artefact must be accepted: otherwise the corpus is broken, not the code.
            let base = consume(a.kind, &a.bytes, &disk.root);
            if base != Verdict::Ok {
                inner.stats.inc("artefact_not_accepted_unfaulted", 1);
                inner.stats.note("artefact_not_accepted_unfaulted", &a.id);
            }
            let mut plans: Vec<Vec<Fault>> = vec![];
            if let Some((_, c)) = chunk {
                for n in c * CHUNK..(c + 1) * CHUNK {
                    if let Some(f) = exhaustive_case(&a, n) {
                        plans.push(vec![f]);
                    }
                }
                inner.stats.inc("exhaustive_chunks", 1);
                inner.stats.add("exhaustive_artefacts", hash_str(&a.id));
            } else {
                for _ in 0..cases {
                    let n = match rng.below(10) {
                        0 => 2,
                        1 => 3,
                        _ => 1,
                    };
                    plans.push((0..n).map(|_| gen_fault(&mut rng, &a)).collect());
                }
            }
            for faults in plans {
                let mut bytes = a.bytes.clone();
                for f in &faults {
                    bytes = apply_fault(&bytes, a.alt.as_deref(), f);
                }
                if bytes == a.bytes {
                    inner.stats.inc("fault_changed_nothing", 1);
                    continue;
                }
                for f in &faults {
                    inner.stats.inc(&format!("fault_{}", f.kind()), 1);
                }
                inner.stats.add(
                    "cases",
                    crate::rng::mix(hash_str(&a.id), hash_bytes(&bytes), 0),
                );
                let before = inner.violations.len();
                let v = check_bytes(&mut inner, a.kind, &a.id, &faults, &bytes, &disk.root);
                inner.event(&format!("{:?} -> {}", faults, match v { Verdict::Ok => "ok", Verdict::Err => "err", Verdict::RejectedAtRead => "utf8", Verdict::Panic { .. } => "PANIC" }));
                if inner.violations.len() > before {
                    // minimise the failing bytes, keep the smaller reproduction
                    let sig = inner.violations[before].signature.clone();
                    let min = minimise_bytes(a.kind, &bytes, &sig, &disk.root);
                    if min.len() < bytes.len() {
                        let viol = &mut inner.violations[before];
                        viol.trace = json!({ "kind": a.kind, "artefact": a.id, "faults": faults, "minimised": true, "bytes_hex": hex::encode(&min) });
                        viol.detail = format!("{} [minimised input: {} bytes: {}]", viol.detail, min.len(), short(&String::from_utf8_lossy(&min), 200));
                    }
                    // one report per signature per run is enough
                    let mut seen = std::collections::BTreeSet::new();
                    inner.violations.retain(|v| seen.insert(v.signature.clone()));
                }
            }
            if k % 53 == 0 {
                inner.stats.sample(json!({
                    "artefact": a.id,
                    "kind": a.kind.tag(),
                    "bytes": a.bytes.len(),
                    "example_fault_plans": ["Truncate(k)", "FlipBit(b)", "SetByte(i,0xff)", "ZeroRange", "DupRange", "DelRange", "SwapBlocks", "Append", "Torn(k) with the other build of the same project"],
                    "exhaustive": exhaustive,
                }));
            }
            inner
        });
        match res {
            Ok(inner) => {
                // fold the inner context into ours (events included via its digest)
                ctx.event(&format!("inner digest {:016x}", inner.log.digest()));
                ctx.stats.merge(inner.stats);
                ctx.logical_steps += inner.logical_steps;
                ctx.violations.extend(inner.violations);
                ctx.harness_errors.extend(inner.harness_errors);
                let _ = &mut ctx.rng.next_u64();
            }
            Err(p) => ctx.harness_error(format!("consumer batch escaped: {} @ {}", p.message, p.location)),
        }
    }

    fn replay(&self, trace: &Value, ctx: &mut RunCtx) {
        let Some(kind) = trace
            .get("kind")
            .and_then(|k| serde_json::from_value::<Kind>(k.clone()).ok())
        else {
            ctx.harness_error("replay: no kind".into());
            return;
        };
        let Ok(bytes) = hex::decode(jstr(trace, "bytes_hex")) else {
            ctx.harness_error("replay: bad bytes".into());
            return;
        };
        let id = jstr(trace, "artefact");
        let faults: Vec<Fault> = trace
            .get("faults")
            .and_then(|f| serde_json::from_value(f.clone()).ok())
            .unwrap_or_default();
        let k = ctx.k;
        let seed_k = ctx.seed_k;
        let res = on_consumer_stack(move || {
            let mut inner = RunCtx::new(k, seed_k, Tier::Quick);
            let disk = RunDisk::new();
            check_bytes(&mut inner, kind, &id, &faults, &bytes, &disk.root);
            inner
        });
        match res {
            Ok(inner) => ctx.violations.extend(inner.violations),
            Err(p) => ctx.harness_error(format!("replay escaped: {} @ {}", p.message, p.location)),
        }
    }

    fn evidence(&self, stats: &Stats, _tier: Tier) -> EvidenceParts {
        let faults: std::collections::BTreeMap<String, u64> = stats
            .counters
            .iter()
            .filter(|(k, _)| k.starts_with("fault_") && k.as_str() != "fault_changed_nothing")
            .map(|(k, v)| (k.trim_start_matches("fault_").to_string(), *v))
            .collect();
        let arts: std::collections::BTreeMap<String, u64> = stats
            .counters
            .iter()
            .filter(|(k, _)| k.starts_with("artefacts_"))
            .map(|(k, v)| (k.trim_start_matches("artefacts_").to_string(), *v))
            .collect();
        EvidenceParts {
            level: "fault_enumeration",
            evaluations: stats.get("evaluations"),
            distinct_nontrivial: stats.distinct("cases"),
            rule: "artefacts are produced by the real tool-chain (plutus.json of generated projects built silent and verbose, their compiled code as hex / CBOR / flat / pretty text, conformance programs, shipped .ak sources and aiken.toml files, parameter CBOR); runs walk the artefact corpus round-robin; each case applies 1-3 storage faults (truncate, bit flip, stuck byte, zeroed / duplicated / deleted range, swapped blocks, appended garbage, torn write between the two builds), half of the positions biased into compiledCode / hash / $ref values, and feeds the bytes to the consumer the tool uses for that file plus the next consumer down the chain, on an 8 MiB stack; thorough additionally enumerates every truncation point and every single-bit flip of artefacts up to 4 KiB. distinct = distinct (artefact, corrupted bytes); non-trivial = the fault changed the bytes".into(),
            extra: json!({
                "fault_kinds_applied": faults,
                "faults_that_changed_nothing": stats.get("fault_changed_nothing"),
                "artefact_kinds_visited": arts,
                "distinct_artefacts": stats.distinct("artefacts"),
                "outcomes": {
                    "rejected_with_error": stats.get("rejected_with_error"),
                    "still_accepted_and_passed_down_the_chain": stats.get("still_accepted"),
                    "rejected_at_read_invalid_utf8": stats.get("rejected_at_read_invalid_utf8"),
                    "panics": stats.get("panics"),
                },
                "exhaustive_enumeration": {
                    "artefacts_fully_enumerated": stats.distinct("exhaustive_artefacts"),
                    "chunks_of_2500_cases": stats.get("exhaustive_chunks"),
                    "space": "every truncation point and every single-bit flip of every artefact of at most 4096 bytes",
                },
                "exhaustive": false,
                "unfaulted_artefacts_not_accepted": stats.notes.get("artefact_not_accepted_unfaulted"),
                "components": {
                    "real": ["Project::blueprint → compiled_code_and_hash → apply_parameter → re-serialise", "Program::{from_flat, from_cbor, from_hex} (DeBruijn and FakeNamedDeBruijn) → to_pretty", "uplc::parser::program(+canonical literals) → to_pretty/to_flat", "aiken_lang::parser::module → format::pretty → parse again; aiken_project::format::run(check) on a file", "ProjectConfig::load", "uplc::plutus_data → hex/term"],
                    "simulated": ["file contents at rest (tmpfs disk): what was written is not what is read"],
                    "stubbed": []
                }
            }),
            assumptions: vec![
                "only the storage-fault subset of C20 is claimed: near-valid inputs that truncation, bit rot, torn or misplaced writes produce; adversarially constructed inputs (10^4-deep nesting, grammar-aware garbage) are outside this family".into(),
                "the verdict is taken in the profile aiken ships (no overflow checks / debug assertions): an arithmetic overflow that would panic only in a debug build is not counted".into(),
                "invalid UTF-8 is rejected by fs::read_to_string before a text decoder sees it; such cases are counted, not fed".into(),
            ],
        }
    }

    fn hang_bound(&self, _tier: Tier) -> std::time::Duration {
        std::time::Duration::from_secs(180)
    }
}
