#!/bin/sh
# tools_mutant.sh <property> <patch.diff> [tier] — apply a seeded change to /repo, run the check, undo.
# Prints the summary lines; exit code = the check's exit code. Never leaves /repo modified.
prop="$1"; patch="$2"; tier="${3:-quick}"
cd /repo || exit 2
if [ -n "$(git status --porcelain)" ]; then echo "repo not clean"; exit 2; fi
git apply "$patch" || { echo "patch does not apply"; exit 2; }
# evidence and replays of a run against a changed tree go to a scratch root, never to /verif
mkdir -p /tmp/mutant_home && cp /verif/known_findings.jsonl /tmp/mutant_home/ 2>/dev/null
VERIF_HOME=/tmp/mutant_home /verif/check "$prop" "$tier" > /tmp/mutant_$prop.log 2>&1; rc=$?
git checkout -- . ; git clean -fdq crates 2>/dev/null
# rebuild against the restored tree so that no later command runs a binary built from the change
(cd /verif/sim && cargo build --release --offline >/dev/null 2>&1)
grep -a "^--- \|^\.\.\. \|^VIOLATION\|^HARNESS\|^KNOWN\|^\[sim" /tmp/mutant_$prop.log | tr -cd '\11\12\15\40-\176' | cut -c1-260 | head -30
echo "exit=$rc"
exit $rc
