#!/usr/bin/env python3
"""Regenerates MANIFEST.json from the table below (kept as code so it stays valid)."""
import json, subprocess

NA = {
 "C01": "compile;eval is a pure function of (module, arguments): deciding it needs a program generator and an independent source-level interpreter (differential testing); there is no schedule, clock, fault or history for a simulator to own.",
 "C02": "optimiser input/output equivalence is a pure function of the term (translation validation over generated programs); the OccurrenceTracker state is internal to one call, nothing is scheduled or faulted.",
 "C03": "agreement of a deterministic evaluator with the CEK specification over all closed terms is term enumeration against a reference evaluator; no nondeterminism or fault is involved.",
 "C04": "each builtin is a pure function of its argument tuple and a semantics variant; boundary-value comparison with an arbitrary-precision model is input generation, not fault injection.",
 "C06": "type soundness quantifies over accepted programs x inputs; the only 'fault' is a program shape, which is generation, not simulation.",
 "C07": "exhaustiveness / first-match is a relation between pattern matrices and values, decided by enumeration against a brute-force matcher; no schedule or state.",
 "C08": "encode/decode identity is a pure round trip over programs and constants; the disk only carries bytes (storage faults on those files are covered under C20).",
 "C10": "totality of pure functions over an input space; budget exhaustion as a fault is exercised under C05, the rest is input generation.",
 "C11": "name <-> de Bruijn conversion is a pure function of the term; checked by term enumeration, not interleavings.",
 "C12": "schema <=> expect agreement quantifies over types x data values: three pure encodings compared pointwise.",
 "C13": "parse . pretty identity and idempotence are pure; the in-place fs::write is not crash-atomic but the property does not quantify over crash points.",
 "C14": "nine compile configurations of a pure pipeline compared on programs x inputs; a compiler option is not a nondeterminism knob of a run.",
 "C15": "parse . to_pretty identity over all programs/constants/strings is a pure round trip.",
}

CHECKS = {
 "C09": dict(engine="sim-build", category="exploration", design_ref="DESIGN.md §4 C09",
   text="Seeded exploration of hash epochs (SipHash keys of every std HashMap via a getrandom seam) x source-file creation/discovery order x thread-pool width x histories on one Project / one CodeGenerator, over generated multi-module projects and the dependency-free acceptance projects; every shipped or displayed observable is compared byte for byte with a reference build (fixed epoch, sorted order, one thread, fresh compiler per operation). Sampling, not proof.",
   note="Trusted: the reference build itself; the getrandom seam reaching every RandomState; rayon's real scheduler on width>1 steps (oracle is equality with the sequential reference, so it cannot false-alarm).",
   technique="deterministic simulation: seeded hash-order, discovery-order, pool-width and compiler-instance-history exploration vs reference build"),
 "C16": dict(engine="sim-proptest", category="exploration", design_ref="DESIGN.md §4 C16",
   text="Seeded exploration of (fuzzer shape, property, expectation, seed, run count, run context) over properties compiled from source by the real tool-chain, against a shrink-free reference loop built from Prng::from_seed / sample / eval: found-or-not, iteration count, labels and verdict must agree; every counterexample is re-applied, replayed from its recorded choices, compared shortlex with the first failing case, and re-run on the same thread and alone on another thread under another hash epoch. The shrinker's memo table is checked operation by operation against the uncached function over model fuzzers with data-dependent consumption.",
   note="Trusted: Prng::sample and PropertyTest::eval as building blocks of the reference loop; the harness's own fuzz library (std lib cannot be fetched); every harness fuzzer is replay-consistent (generation under a seed and replay of the recorded choices agree), which the check asserts (first-case-not-replayable) rather than assumes.",
   technique="deterministic simulation: seeded seeds x fuzzer shapes x run contexts vs shrink-free reference model; model-based check of the shrinker cache over lookup histories"),
 "C18": dict(engine="sim-blueprint", category="exploration", design_ref="DESIGN.md §4 C18",
   text="Seeded histories of operations (apply conforming / near-miss / unfiltered / when none left, reload, query address+policy) on the durable plutus.json of generated parameterised validators, executed through the real Project::blueprint → apply_parameter → write path and checked after every step against a trivial reference model (original program, applied values, remaining schemas): accepted iff an independent conformance predicate says so, never a panic, nothing changes on rejection, exactly the first remaining parameter of exactly that validator is consumed, published code decodes to [(original d1)…dk], hash is blake2b-224 of the published bytes; at the end one-by-one ≡ all-at-once ≡ raw-bytes path and the applied validator evaluates like the original on all arguments.",
   note="Trusted: the independent CIP-57 conformance predicate over the blueprint's JSON; the unapplied compiledCode as the model's starting point; behaviour compared on the mint-handler context shape.",
   technique="deterministic simulation: seeded operation histories on a durable blueprint file vs executable reference model"),
 "C19": dict(engine="sim-tx", category="exploration", design_ref="DESIGN.md §4 C19",
   text="Seeded exploration of synthetic Conway transactions (Plutus V1/V2/V3 scripts of known behaviour; spend with hashed/inline datum, mint, withdraw, publish; witness or reference scripts) evaluated by the real eval_phase_two(_with_protocol) under delivery-order permutations, one missing or extraneous piece, budget-exhaustion points placed at prefix sums of the stand-alone script costs, cost models supplied or absent, protocol versions and slot configurations; compared with a sequential reference fold (plain-map script lookup, per-version argument selection, budget hand-over).",
   note="Trusted: TxInfo/ScriptContext content (other properties' territory), the CEK machine for stand-alone script costs, pallas for encoding the assembled transaction. Vote/propose purposes are not generated.",
   technique="deterministic simulation: seeded delivery order, message loss (missing script/datum/input/redeemer), budget-exhaustion placement and clock configuration vs sequential reference fold"),
 "C20": dict(engine="sim-storage", category="fault_enumeration", design_ref="DESIGN.md §4 C20",
   text="Storage-fault subset of C20: artefacts produced by the real tool-chain (plutus.json, hex/CBOR/flat scripts, pretty UPLC, .ak sources, aiken.toml, parameter CBOR) are truncated, bit-flipped, torn between two genuine builds, or have blocks zeroed / duplicated / deleted / swapped / appended, then fed to the consumer the tool uses for that file and to the next consumer down the chain, on an 8 MiB stack. Quick samples seeded fault plans over the whole artefact corpus; thorough additionally enumerates every truncation point and every single-bit flip of artefacts up to 4 KiB. A panic, abort, stack overflow or hang is a violation.",
   note="Claimed for the storage-fault model, plus plain inputs that only nest deeply (27 shapes, each in a child process on an 8 MiB stack; eleven signatures of three genuine defects are listed as known findings and printed as KNOWN-FINDING, exit 0): other adversarially constructed inputs (grammar-aware garbage) are outside this technique family. Verdict taken in the shipped profile (no overflow checks). Invalid UTF-8 is rejected by fs::read_to_string before a text decoder sees it.",
   technique="deterministic simulation: storage-fault injection (truncate / torn write / bit rot / misplaced block) on toolchain-written artefacts, with enumeration of all truncations and single-bit flips of small artefacts"),
 "C17": dict(engine="sim-sched", category="exploration", design_ref="DESIGN.md §4 C17",
   text="Seeded exploration of test-run schedules: the executor seam hands the real tests to 1-16 simulator-owned worker threads in a seeded assignment and order (one released at a time, exactly replayable), plus rayon's real scheduler at widths 2-16; results and result order are compared with the one-at-a-time run, and at every hand-off an ownership audit walks every Rc reachable from every test (no allocation shared between tests, none held from outside the test's own graph, no typed assertion attached). Sampling of schedules; the ownership invariant is decided exactly for every test set explored.",
   note="Trusted: the audited set is what a worker touches on this tree (programs, fuzzer/sampler programs, assertion); tests interleave at whole-test granularity; rayon leg is uncontrolled but its oracle cannot false-alarm.",
   technique="deterministic simulation: controlled executor schedules (seeded worker assignment/order) + Rc-ownership invariant at the thread hand-off seam"),
 "C05": dict(engine="sim-budget", category="exploration", design_ref="DESIGN.md §4 C05",
   text="Seeded exploration of batching interval x budget-exhaustion point x (language, protocol, cost vector) over the whole upstream conformance corpus plus generated loop programs, against the unbatched execution as reference model and the upstream golden budgets (v3). Sampling, not proof: it decides batching independence and the succeed-iff-cost<=budget rule on everything explored.",
   note="Trusted: the machine under slippage 1 as the unbatched reference; upstream .budget.expected files for the v3 corpus; the harness's parser of tests/conformance.rs for the ledger vectors; the harness's own copy of the ledger's parameter order (sim/src/ledger_params.rs). Coefficient-free probes (size groups, argument symmetry, step prices, parameter non-interference, vector positions) pin what golden budgets do not reach; which semantics variant applies to a (language, protocol) pair is NOT checked (no independent source).",
   technique="deterministic simulation: seeded batching-interval and budget-exhaustion fault injection vs unbatched reference model"),
}

def main():
    hooks_commits = subprocess.run(["git","-C","/repo","log","--format=%H %s","8fa49aa..HEAD"],capture_output=True,text=True).stdout.strip().splitlines()
    hook_commits = [l.split()[0] for l in hooks_commits if not l.split(" ",1)[1].startswith("fix:")]
    checks=[]
    for pid,c in sorted(CHECKS.items()):
        checks.append({
          "property_id": pid,
          "quick_cmd": f"./check {pid} quick",
          "thorough_cmd": f"./check {pid} thorough",
          "evidence_file": f"/verif/evidence/{pid}.json",
          "replay_cmd_template": "./sim/target/release/dst replay {path}",
          "engine": c["engine"],
          "level_claimed": {"category": c["category"], "text": c["text"], "design_ref": c["design_ref"]},
          "level_note": c["note"],
          "technique": c["technique"],
        })
    na=[{"property_id":k,"reason":v} for k,v in sorted(NA.items()) if k not in CHECKS]
    # properties planned but whose engine is not committed yet
    import json as _j
    ids=[_j.loads(l)["id"] for l in open("/verif/properties.jsonl")]
    for i in ids:
        if i not in CHECKS and i not in NA:
            na.append({"property_id": i, "reason": "simulation engine designed (DESIGN.md §4) but not yet committed; not claimed until its check exists"})
    na.sort(key=lambda x:x["property_id"])
    m={
     "version":1,
     "setup_cmd":"cd sim && CARGO_NET_OFFLINE=true cargo build --release --offline",
     "hooks":{
       "guard":"cargo feature `verif-hooks` of crate aiken-project (off by default; no workspace build or test enables it)",
       "enable":"/verif/sim depends on /repo/crates/aiken-project by path with features=[\"verif-hooks\"]; ./check rebuilds it from /repo's working tree",
       "baseline_off_cmd":"cd /repo && cargo test --workspace --no-fail-fast --offline",
       "source_commits": hook_commits,
       "add_only": True,
     },
     "engines":[{"name":c["engine"],"path":"/verif/sim/src","serves_properties":[p],"kind_free_text":"deterministic simulation with fault injection (seeded search, replayable traces)"} for p,c in sorted(CHECKS.items())],
     "checks":checks,
     "not_applicable":na,
     "notes":"All engines live in one Rust binary (/verif/sim, `dst`). Exit 0 held / 1 VIOLATION / 2 harness error. Known findings: /verif/known_findings.jsonl.",
    }
    json.dump(m,open("/verif/MANIFEST.json","w"),indent=1)
    print("checks:",[c["property_id"] for c in checks],"na:",len(na))
main()
