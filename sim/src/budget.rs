//! C05 `sim-budget`: execution budgets are exact.
//!
//! The CEK machine charges step costs in batches (the *slippage* knob, hard-wired to 200 in every
//! public entry point but free in `Machine::new`) and fails when a spend drives the budget
//! negative. The simulator owns both: the batching interval and the budget, a resource whose
//! exhaustion is made to strike at chosen machine steps.
//!
//! Reference model: the same program under slippage 1 (every step charged at once, no batching
//! state at all) and an ample budget.

use crate::common::*;
use crate::driver::{Engine, EvidenceParts};
use crate::rng::Rng;
use pallas_primitives::conway::Language;
use serde_json::{Value, json};
use std::collections::BTreeMap;
use std::sync::OnceLock;
use uplc::ast::{NamedDeBruijn, Program, Term};
use uplc::machine::cost_model::{
    CostModel, ExBudget, StepKind, initialize_cost_model_with_protocol,
};
use uplc::machine::{Error as MachineError, Machine};

pub struct BudgetEngine;

const PROP: &str = "C05";

#[derive(Clone)]
pub struct Prog {
    pub id: String,
    pub source: ProgSource,
    pub term: Term<NamedDeBruijn>,
    /// Golden (cpu, mem) under the conformance configuration, when upstream ships one.
    pub golden: Option<(i64, i64)>,
    /// Language of the directory the program came from (conformance configuration).
    pub home: Lang,
}

#[derive(Clone, Copy, PartialEq, Eq, Debug)]
pub enum ProgSource {
    Corpus,
    Generated,
    Compiled,
}

#[derive(Clone, Copy, PartialEq, Eq, Debug)]
pub enum Lang {
    V1,
    V2,
    V3,
}

impl Lang {
    pub fn language(&self) -> Language {
        match self {
            Lang::V1 => Language::PlutusV1,
            Lang::V2 => Language::PlutusV2,
            Lang::V3 => Language::PlutusV3,
        }
    }
    fn tag(&self) -> &'static str {
        match self {
            Lang::V1 => "v1",
            Lang::V2 => "v2",
            Lang::V3 => "v3",
        }
    }
    fn parse(s: &str) -> Lang {
        match s {
            "v1" => Lang::V1,
            "v2" => Lang::V2,
            _ => Lang::V3,
        }
    }
}

/// A machine configuration: language × protocol × cost-parameter vector.
#[derive(Clone, Debug, PartialEq)]
pub enum CostVec {
    /// `CostModel::default()` with `Machine::new` (what `Program::eval*` use).
    Default,
    /// `CostModel::default_for_language_and_protocol` with `Machine::new_with_protocol`.
    LangProto,
    /// The ledger vector the conformance tests use for this language, protocol-aware machine.
    Conformance,
    /// The conformance vector with every entry scaled by a seeded factor (1..=3), to check that
    /// nothing depends on one particular parameter vector.
    Scaled(u64),
}

#[derive(Clone, Debug, PartialEq)]
pub struct Config {
    pub lang: Lang,
    pub protocol: u16,
    pub costs: CostVec,
}

impl Config {
    fn to_json(&self) -> Value {
        json!({
            "lang": self.lang.tag(),
            "protocol": self.protocol,
            "costs": match &self.costs {
                CostVec::Default => json!("default"),
                CostVec::LangProto => json!("lang-proto"),
                CostVec::Conformance => json!("conformance"),
                CostVec::Scaled(s) => json!({"scaled": s}),
            }
        })
    }
    fn from_json(v: &Value) -> Config {
        let costs = match v.get("costs") {
            Some(Value::String(s)) if s == "default" => CostVec::Default,
            Some(Value::String(s)) if s == "lang-proto" => CostVec::LangProto,
            Some(Value::String(s)) if s == "conformance" => CostVec::Conformance,
            Some(o) => CostVec::Scaled(ju64(o, "scaled")),
            None => CostVec::Default,
        };
        Config {
            lang: Lang::parse(&jstr(v, "lang")),
            protocol: ju64(v, "protocol") as u16,
            costs,
        }
    }
    fn class(&self) -> String {
        format!(
            "{}-pv{}-{}",
            self.lang.tag(),
            self.protocol,
            match self.costs {
                CostVec::Default => "default",
                CostVec::LangProto => "langproto",
                CostVec::Conformance => "conformance",
                CostVec::Scaled(_) => "scaled",
            }
        )
    }
}

/// Thread-safe corpus entry (terms hold `Rc`s, so each run parses its own copy).
#[derive(Clone)]
pub struct ProgText {
    pub id: String,
    pub code: String,
    pub golden: Option<(i64, i64)>,
    pub home: Lang,
}

impl ProgText {
    pub fn parse(&self) -> Option<Prog> {
        let code = &self.code;
        let parsed = guard(|| match self.home {
            Lang::V3 => uplc::parser::program_with_canonical_value_literals(code),
            _ => uplc::parser::program(code),
        });
        let Ok(Ok(program)) = parsed else {
            return None;
        };
        let program = Program::<NamedDeBruijn>::try_from(program).ok()?;
        Some(Prog {
            id: self.id.clone(),
            source: ProgSource::Corpus,
            term: program.term,
            golden: self.golden,
            home: self.home,
        })
    }
}

pub struct Corpus {
    pub programs: Vec<ProgText>,
    pub v2_costs: Vec<i64>,
    pub v3_costs: Vec<i64>,
    pub parse_failures: usize,
}

static CORPUS: OnceLock<Corpus> = OnceLock::new();

/// Pull the ledger cost vectors out of `tests/conformance.rs` of the current tree.
fn extract_vectors(src: &str) -> (Vec<i64>, Vec<i64>) {
    fn numbers_after(src: &str, marker: &str) -> Vec<i64> {
        let Some(i) = src.find(marker) else {
            return vec![];
        };
        let rest = &src[i + marker.len()..];
        let Some(open) = rest.find("&[\n").or_else(|| rest.find("&[ ")).or_else(|| rest.find("&[1")) else {
            return vec![];
        };
        let rest = &rest[open + 2..];
        let Some(close) = rest.find(']') else {
            return vec![];
        };
        rest[..close]
            .split(',')
            .filter_map(|t| t.trim().parse::<i64>().ok())
            .collect()
    }
    let v3 = numbers_after(src, "const V3_PV11_COSTS");
    let v2 = numbers_after(src, "fn plutus_conformance_tests_v2()");
    (v2, v3)
}

fn parse_budget_expected(text: &str) -> Option<(i64, i64)> {
    // ({cpu: 152191\n| mem: 532})
    let cpu = text.split("cpu:").nth(1)?.split(['|', '\n']).next()?.trim();
    let mem = text.split("mem:").nth(1)?.split('}').next()?.trim();
    Some((cpu.parse().ok()?, mem.parse().ok()?))
}

pub fn corpus() -> &'static Corpus {
    CORPUS.get_or_init(|| {
        let root = format!("{REPO_DIR}/crates/uplc/test_data/conformance");
        let src = std::fs::read_to_string(format!("{REPO_DIR}/crates/uplc/tests/conformance.rs"))
            .unwrap_or_default();
        let (v2_costs, v3_costs) = extract_vectors(&src);
        let mut files: Vec<std::path::PathBuf> = walkdir::WalkDir::new(&root)
            .sort_by_file_name()
            .into_iter()
            .filter_map(|e| e.ok())
            .map(|e| e.into_path())
            .filter(|p| p.extension().and_then(|e| e.to_str()) == Some("uplc"))
            .collect();
        files.sort();
        let mut programs = vec![];
        let mut parse_failures = 0;
        for path in files {
            let rel = path
                .strip_prefix(&root)
                .unwrap()
                .to_string_lossy()
                .to_string();
            let home = if rel.starts_with("v2") { Lang::V2 } else { Lang::V3 };
            let Ok(code) = std::fs::read_to_string(&path) else {
                continue;
            };
            let golden = std::fs::read_to_string(path.with_extension("uplc.budget.expected"))
                .ok()
                .and_then(|t| parse_budget_expected(&t));
            let text = ProgText {
                id: rel,
                code,
                golden,
                home,
            };
            if text.parse().is_some() {
                programs.push(text);
            } else {
                parse_failures += 1;
            }
        }
        Corpus {
            programs,
            v2_costs,
            v3_costs,
            parse_failures,
        }
    })
}

fn scale(v: &[i64], s: u64) -> Vec<i64> {
    let mut r = Rng::new(s);
    v.iter()
        .map(|x| x.saturating_mul(1 + r.below(3) as i64))
        .collect()
}

fn cost_model(cfg: &Config) -> CostModel {
    let lang = cfg.lang.language();
    let base = |c: &Corpus| match cfg.lang {
        Lang::V3 => c.v3_costs.clone(),
        _ => c.v2_costs.clone(),
    };
    match &cfg.costs {
        CostVec::Default => CostModel::default(),
        CostVec::LangProto => CostModel::default_for_language_and_protocol(&lang, cfg.protocol),
        CostVec::Conformance => {
            initialize_cost_model_with_protocol(&lang, cfg.protocol, &base(corpus()))
        }
        CostVec::Scaled(s) => {
            initialize_cost_model_with_protocol(&lang, cfg.protocol, &scale(&base(corpus()), *s))
        }
    }
}

fn machine(cfg: &Config, budget: ExBudget, slippage: u32, debug: bool) -> Machine {
    let lang = cfg.lang.language();
    let costs = cost_model(cfg);
    match (&cfg.costs, debug) {
        (CostVec::Default, false) => Machine::new(lang, costs, budget, slippage),
        (CostVec::Default, true) => Machine::new_debug(lang, costs, budget, slippage),
        (_, false) => Machine::new_with_protocol(lang, cfg.protocol, costs, budget, slippage),
        (_, true) => Machine::new_debug_with_protocol(lang, cfg.protocol, costs, budget, slippage),
    }
}

#[derive(Clone, Debug, PartialEq)]
pub enum Outcome {
    /// Pretty-printed result term (BLS `Debug` is representation dependent; the pretty form
    /// is canonical).
    Value(String),
    OutOfBudget,
    /// Any other machine error, by variant name.
    Error(String),
    Panic(String),
}

#[derive(Clone, Debug)]
pub struct Exec {
    pub outcome: Outcome,
    pub remaining: ExBudget,
    pub traces: Vec<String>,
    pub debug_sum: Option<(i64, i64)>,
    pub steps: Option<u64>,
}

fn error_class(e: &MachineError) -> String {
    let d = format!("{e:?}");
    d.split(['(', ' ', '{']).next().unwrap_or("").to_string()
}

pub fn execute(
    term: &Term<NamedDeBruijn>,
    cfg: &Config,
    budget: ExBudget,
    slippage: u32,
    debug: bool,
) -> Exec {
    let term = term.clone();
    let r = guard(|| {
        let mut m = machine(cfg, budget, slippage, debug);
        let res = m.run(term);
        let steps_and_sum = m.spend_counter.map(|c| {
            let mut mem = 0i64;
            let mut cpu = 0i64;
            for i in 0..c.len() / 2 {
                mem += c[i * 2];
                cpu += c[i * 2 + 1];
            }
            (mem, cpu)
        });
        (res, m.ex_budget, m.traces, steps_and_sum)
    });
    match r {
        Err(p) => Exec {
            outcome: Outcome::Panic(format!("{} @ {}", p.message, p.site())),
            remaining: budget,
            traces: vec![],
            debug_sum: None,
            steps: None,
        },
        Ok((res, remaining, traces, sum)) => {
            let outcome = match res {
                Ok(t) => Outcome::Value(t.to_pretty()),
                Err(MachineError::OutOfExError(_)) => Outcome::OutOfBudget,
                Err(e) => Outcome::Error(error_class(&e)),
            };
            Exec {
                outcome,
                remaining,
                traces: traces.iter().map(|t| format!("{t:?}")).collect(),
                debug_sum: sum,
                steps: None,
            }
        }
    }
}

/// Ample budget of the reference execution.
pub fn big() -> ExBudget {
    ExBudget {
        cpu: 200_000_000_000,
        mem: 200_000_000_000,
    }
}

fn spent(initial: ExBudget, remaining: ExBudget) -> (i64, i64) {
    (initial.cpu - remaining.cpu, initial.mem - remaining.mem)
}

// ------------------------------------------------------------------------------------------
// Generated programs: a safe, terminating fragment with long step sequences (so that batching
// boundaries are crossed many times) and size-dependent builtin costs.

/// Hand-rolled programs with an exact, simple shape: (\f. f f) applied countdown with an
/// accumulator. Kept separate from `generated_source` so a syntax slip in one does not silence
/// the other.
pub fn countdown_source(n: i64, body: &str, init: &str) -> String {
    format!(
        "(program 1.0.0 [ [ [ (lam s [ s s ]) (lam self (lam i (lam acc (force [ [ [ (force (builtin ifThenElse)) [ [ (builtin lessThanEqualsInteger) i ] (con integer 0) ] ] (delay acc) ] (delay [ [ [ self self ] [ [ (builtin subtractInteger) i ] (con integer 1) ] ] {body} ]) ])))) ] (con integer {n}) ] {init} ])"
    )
}

pub fn gen_program(rng: &mut Rng) -> (String, String) {
    let n = match rng.below(8) {
        0 => rng.range(0, 3),
        1 => rng.range(28, 30),
        2 => rng.range(56, 58),
        3 => rng.range(10, 14),
        _ => rng.range(1, 90),
    };
    let fail = rng.chance(1, 7);
    let j = rng.range(0, n.max(1));
    let nbytes = rng.usize_below(70);
    let hexbytes = hex::encode(rng.bytes(nbytes));
    let (mut body, init): (String, String) = match rng.below(9) {
        0 => (
            "[ [ (builtin addInteger) acc ] i ]".into(),
            "(con integer 0)".into(),
        ),
        1 => (
            "[ [ (builtin multiplyInteger) [ [ (builtin addInteger) acc ] (con integer 3) ] ] (con integer 1000003) ]".into(),
            "(con integer 1)".into(),
        ),
        2 => (
            format!("[ [ (builtin appendByteString) acc ] (con bytestring #{hexbytes}) ]"),
            "(con bytestring #)".into(),
        ),
        3 => (
            "[ [ (builtin divideInteger) [ [ (builtin multiplyInteger) [ [ (builtin addInteger) acc ] (con integer 12345678901234567890) ] ] (con integer 340282366920938463463374607431768211457) ] ] [ [ (builtin addInteger) i ] (con integer 1) ] ]".into(),
            "(con integer 7)".into(),
        ),
        4 => (
            "[ [ (force (builtin mkCons)) [ (builtin iData) i ] ] acc ]".into(),
            "(con (list data) [])".into(),
        ),
        5 => (
            "[ (builtin sha2_256) [ [ (builtin consByteString) [ [ (builtin modInteger) i ] (con integer 256) ] ] acc ] ]".into(),
            format!("(con bytestring #{hexbytes})"),
        ),
        6 => (
            "[ [ [ (force (builtin ifThenElse)) [ [ (builtin lessThanInteger) acc ] i ] ] [ [ (builtin addInteger) acc ] (con integer 2) ] ] [ [ (builtin subtractInteger) acc ] (con integer 1) ] ]".into(),
            "(con integer 5)".into(),
        ),
        7 => (
            "[ (builtin listData) [ [ (force (builtin mkCons)) acc ] [ [ (force (builtin mkCons)) [ (builtin iData) i ] ] (con (list data) []) ] ] ]".into(),
            "(con data (I 0))".into(),
        ),
        _ => (
            "[ [ (force (builtin trace)) (con string \"t\") ] [ [ (builtin addInteger) acc ] (con integer 1) ] ]".into(),
            "(con integer 0)".into(),
        ),
    };
    if fail {
        body = format!(
            "(force [ [ [ (force (builtin ifThenElse)) [ [ (builtin equalsInteger) i ] (con integer {j}) ] ] (delay (error)) ] (delay {body}) ])"
        );
    }
    let src = countdown_source(n, &body, &init);
    (format!("gen:n={n}:fail={fail}:{:08x}", hash_str(&src) as u32), src)
}

// ------------------------------------------------------------------------------------------

fn slippage_menu(rng: &mut Rng, steps: u64) -> Vec<u32> {
    let s = steps.min(u32::MAX as u64 - 2) as u32;
    let mut v = vec![
        0,
        1,
        2,
        3,
        5,
        7,
        199,
        200,
        201,
        s.saturating_sub(1),
        s,
        s + 1,
        s / 2 + 1,
        rng.range(1, 5000) as u32,
        rng.range(1, 64) as u32,
        1 << 20,
        u32::MAX,
    ];
    v.dedup();
    v
}

fn slippage_class(s: u32, steps: u64) -> &'static str {
    let st = steps as u32;
    if s <= 1 {
        "unbatched"
    } else if s == 200 {
        "default"
    } else if s as u64 > steps {
        "never-flushes-before-end"
    } else if s == st || s + 1 == st || s == st + 1 {
        "boundary"
    } else if steps % (s as u64) == 0 {
        "divides-steps"
    } else {
        "mid"
    }
}

fn configs_for(rng: &mut Rng, prog: &Prog, tier: Tier) -> Vec<Config> {
    let mut v = vec![];
    // Home configuration first (the golden budgets are stated under it).
    v.push(Config {
        lang: prog.home,
        protocol: 11,
        costs: CostVec::Conformance,
    });
    let langs = [Lang::V1, Lang::V2, Lang::V3];
    let n_extra = match tier {
        Tier::Quick => 2,
        Tier::Thorough => 5,
    };
    for _ in 0..n_extra {
        let lang = *rng.pick(&langs);
        let protocol = rng.range(7, 11) as u16;
        let costs = match rng.below(4) {
            0 => CostVec::Default,
            1 => CostVec::LangProto,
            2 if lang != Lang::V1 => CostVec::Conformance,
            3 if lang != Lang::V1 => CostVec::Scaled(rng.below(1 << 20) + 1),
            _ => CostVec::LangProto,
        };
        let c = Config {
            lang,
            protocol,
            costs,
        };
        if !v.contains(&c) {
            v.push(c);
        }
    }
    v
}

struct Case<'a> {
    prog_id: &'a str,
    src: Option<&'a str>,
    cfg: &'a Config,
}

impl Case<'_> {
    fn trace(&self, kind: &str, slippage: u32, budget: Option<ExBudget>) -> Value {
        json!({
            "kind": kind,
            "program": self.prog_id,
            "source": self.src,
            "config": self.cfg.to_json(),
            "slippage": slippage,
            "budget": budget.map(|b| json!({"cpu": b.cpu, "mem": b.mem})),
        })
    }
}

/// All invariants for one (program, configuration). Returns the number of evaluations done.
fn check_program(
    ctx: &mut RunCtx,
    prog: &Prog,
    src: Option<&str>,
    cfg: &Config,
    slippages: Option<Vec<u32>>,
    budget_points: usize,
    exhaustive_walk: bool,
) {
    let case = Case {
        prog_id: &prog.id,
        src,
        cfg,
    };
    let reference = execute(&prog.term, cfg, big(), 1, true);
    ctx.stats.inc("evaluations", 1);
    let (c_cpu, c_mem) = spent(big(), reference.remaining);
    ctx.event(&format!(
        "ref {} {} {:?} cpu={c_cpu} mem={c_mem}",
        prog.id,
        cfg.class(),
        short(&format!("{:?}", reference.outcome), 80)
    ));
    if let Outcome::Panic(p) = &reference.outcome {
        // Not C05's business (C10), and on the unchanged tree it does not happen on this workload.
        ctx.stats.inc("reference_panics", 1);
        ctx.stats.note("reference_panics", p);
        return;
    }
    if reference.outcome == Outcome::OutOfBudget {
        ctx.stats.inc("reference_out_of_ample_budget", 1);
        return;
    }
    let startup = cost_model(cfg).machine_costs.get(StepKind::StartUp);
    let steps = step_count(&prog.term, cfg).unwrap_or(0);
    ctx.logical_steps += steps;
    let succeeded = matches!(reference.outcome, Outcome::Value(_));
    ctx.stats.inc(
        if succeeded {
            "programs_succeeding"
        } else {
            "programs_failing"
        },
        1,
    );

    // (5) accounting cross-check on the reference itself
    if succeeded {
        if let Some((mem, cpu)) = reference.debug_sum {
            if mem + startup.mem != c_mem || cpu + startup.cpu != c_cpu {
                ctx.violation(
                    PROP,
                    "accounting-sum",
                    format!("accounting-sum|{}|{}", cfg.class(), prog.id),
                    format!(
                        "program {} under {}: per-step-kind and per-builtin spend counters sum to cpu={} mem={} (+ start-up cpu={} mem={}) but the charged cost is cpu={c_cpu} mem={c_mem}",
                        prog.id, cfg.class(), cpu, mem, startup.cpu, startup.mem
                    ),
                    case.trace("accounting", 1, None),
                );
            }
        }
    }

    // (6) the public entry points (`Program::eval*`, slippage hard-wired to 200) agree with the
    // machine driven directly: same result, same cost, and they honour the budget they are given.
    if succeeded {
        entry_points(ctx, &case, prog, cfg, &reference, (c_cpu, c_mem));
    }

    // (4) golden oracle
    // Only the v3 corpus: the v2 `.budget.expected` files were produced upstream under a
    // parameter vector that is not in this tree (machine step cost 23000 instead of the 16000 of
    // the vector `tests/conformance.rs` evaluates v2 programs with), so they are not an oracle
    // for any configuration that can be built here.
    if let (Some((g_cpu, g_mem)), true) = (
        prog.golden.filter(|_| prog.home == Lang::V3),
        *cfg == Config {
            lang: prog.home,
            protocol: 11,
            costs: CostVec::Conformance,
        },
    ) {
        if succeeded {
            ctx.stats.inc("golden_compared", 1);
            if (g_cpu, g_mem) != (c_cpu, c_mem) {
                ctx.violation(
                    PROP,
                    "golden-budget",
                    format!("golden-budget|{}", prog.id),
                    format!(
                        "program {}: upstream golden budget cpu={g_cpu} mem={g_mem}, machine charged cpu={c_cpu} mem={c_mem} (conformance configuration {})",
                        prog.id, cfg.class()
                    ),
                    case.trace("golden", 1, None),
                );
            }
        }
    }

    // (2) batching schedule
    let menu = slippages.unwrap_or_else(|| slippage_menu(&mut ctx.rng, steps));
    for s in &menu {
        let e = execute(&prog.term, cfg, big(), *s, true);
        ctx.stats.inc("evaluations", 1);
        ctx.stats.inc("batching_schedules", 1);
        let (cpu, mem) = spent(big(), e.remaining);
        let class = slippage_class(*s, steps);
        ctx.stats.add(
            "program_config_slippage_class",
            hash_str(&format!("{}|{}|{class}", prog.id, cfg.class())),
        );
        ctx.event(&format!("slip {s} cpu={cpu} mem={mem}"));
        match (&reference.outcome, &e.outcome) {
            (Outcome::Value(a), Outcome::Value(b)) => {
                if a != b || reference.traces != e.traces {
                    ctx.violation(
                        PROP,
                        "batching-result",
                        format!("batching-result|{}|{}", cfg.class(), prog.id),
                        format!(
                            "program {} under {}: slippage {s} returns {} (traces {:?}) but unbatched returns {} (traces {:?})",
                            prog.id, cfg.class(), short(b, 200), e.traces.len(), short(a, 200), reference.traces.len()
                        ),
                        case.trace("batching", *s, None),
                    );
                } else if (cpu, mem) != (c_cpu, c_mem) {
                    ctx.violation(
                        PROP,
                        "batching-cost",
                        format!("batching-cost|{}|{}", cfg.class(), prog.id),
                        format!(
                            "program {} under {} ({} steps): slippage {s} charges cpu={cpu} mem={mem}, unbatched charges cpu={c_cpu} mem={c_mem}",
                            prog.id, cfg.class(), steps
                        ),
                        case.trace("batching", *s, None),
                    );
                } else if let Some((dm, dc)) = e.debug_sum {
                    if dm + startup.mem != mem || dc + startup.cpu != cpu {
                        ctx.violation(
                            PROP,
                            "accounting-sum",
                            format!("accounting-sum|{}|{}", cfg.class(), prog.id),
                            format!(
                                "program {} under {} slippage {s}: spend counters sum to cpu={dc} mem={dm} (+ start-up) but charged cpu={cpu} mem={mem}",
                                prog.id, cfg.class()
                            ),
                            case.trace("batching", *s, None),
                        );
                    }
                }
            }
            (Outcome::Value(_), other) => {
                ctx.violation(
                    PROP,
                    "batching-verdict",
                    format!("batching-verdict|{}|{}", cfg.class(), prog.id),
                    format!(
                        "program {} under {}: succeeds unbatched but slippage {s} gives {other:?} with an ample budget",
                        prog.id, cfg.class()
                    ),
                    case.trace("batching", *s, None),
                );
            }
            (Outcome::Error(a), Outcome::Error(b)) => {
                // Same failure; un-flushed steps may legitimately be missing from the figure of a
                // failed run, never extra ones.
                if a != b {
                    ctx.violation(
                        PROP,
                        "batching-verdict",
                        format!("batching-verdict|{}|{}", cfg.class(), prog.id),
                        format!(
                            "program {} under {}: fails with {a} unbatched but with {b} under slippage {s}",
                            prog.id, cfg.class()
                        ),
                        case.trace("batching", *s, None),
                    );
                } else if cpu > c_cpu || mem > c_mem {
                    ctx.violation(
                        PROP,
                        "batching-cost",
                        format!("batching-cost|{}|{}", cfg.class(), prog.id),
                        format!(
                            "failing program {} under {}: slippage {s} charged cpu={cpu} mem={mem}, more than unbatched cpu={c_cpu} mem={c_mem}",
                            prog.id, cfg.class()
                        ),
                        case.trace("batching", *s, None),
                    );
                }
            }
            (Outcome::Error(a), other) => {
                ctx.violation(
                    PROP,
                    "batching-verdict",
                    format!("batching-verdict|{}|{}", cfg.class(), prog.id),
                    format!(
                        "program {} under {}: fails with {a} unbatched but slippage {s} gives {}",
                        prog.id, cfg.class(), short(&format!("{other:?}"), 200)
                    ),
                    case.trace("batching", *s, None),
                );
            }
            _ => {}
        }
    }

    // (3) budget-exhaustion fault
    if succeeded {
        let total = ExBudget {
            cpu: c_cpu,
            mem: c_mem,
        };
        let mut points: Vec<(ExBudget, &'static str)> = vec![
            (total, "exact"),
            (
                ExBudget {
                    cpu: c_cpu - 1,
                    mem: c_mem,
                },
                "cpu-1",
            ),
            (
                ExBudget {
                    cpu: c_cpu,
                    mem: c_mem - 1,
                },
                "mem-1",
            ),
            (
                ExBudget {
                    cpu: c_cpu + 1,
                    mem: c_mem + 1,
                },
                "plus-1",
            ),
            (ExBudget { cpu: 0, mem: 0 }, "zero"),
            (
                ExBudget {
                    cpu: startup.cpu,
                    mem: startup.mem,
                },
                "startup-only",
            ),
        ];
        for _ in 0..budget_points {
            let r = &mut ctx.rng;
            let p = match r.below(5) {
                0 => (
                    ExBudget {
                        cpu: c_cpu + r.range(0, 1_000_000),
                        mem: c_mem + r.range(0, 10_000),
                    },
                    "ample",
                ),
                1 => (
                    ExBudget {
                        cpu: r.range(0, c_cpu.max(1) - 1),
                        mem: r.range(0, c_mem.max(1) - 1),
                    },
                    "inside",
                ),
                2 => (
                    ExBudget {
                        cpu: big().cpu,
                        mem: r.range(0, c_mem.max(1) - 1),
                    },
                    "mem-short",
                ),
                3 => (
                    ExBudget {
                        cpu: r.range(0, c_cpu.max(1) - 1),
                        mem: big().mem,
                    },
                    "cpu-short",
                ),
                _ => (
                    ExBudget {
                        cpu: c_cpu - r.range(0, 16_000.min(c_cpu)),
                        mem: c_mem - r.range(0, 100.min(c_mem)),
                    },
                    "near",
                ),
            };
            points.push(p);
        }
        for (b, label) in points {
            let s = *ctx.rng.pick(&menu);
            budget_point(ctx, &case, prog, cfg, &reference, total, b, s, label);
        }

        // Exhaustive walk over every spend boundary of the unbatched execution.
        if exhaustive_walk && steps <= 2500 {
            let mut b = ExBudget { cpu: 0, mem: 0 };
            let mut boundaries = 0u64;
            let mut guard_iter = 0;
            loop {
                guard_iter += 1;
                if guard_iter > 6000 {
                    break;
                }
                let e = execute(&prog.term, cfg, b, 1, false);
                ctx.stats.inc("evaluations", 1);
                match e.outcome {
                    Outcome::OutOfBudget => {
                        // cumulative cost at the first spend that exceeds b
                        let cum = ExBudget {
                            cpu: b.cpu - e.remaining.cpu,
                            mem: b.mem - e.remaining.mem,
                        };
                        if cum.cpu > c_cpu || cum.mem > c_mem || (cum.cpu <= b.cpu && cum.mem <= b.mem) {
                            ctx.violation(
                                PROP,
                                "boundary-walk",
                                format!("boundary-walk|{}|{}", cfg.class(), prog.id),
                                format!(
                                    "program {} under {}: with budget cpu={} mem={} the unbatched machine stops with cumulative cost cpu={} mem={}, outside (budget, total cpu={c_cpu} mem={c_mem}]",
                                    prog.id, cfg.class(), b.cpu, b.mem, cum.cpu, cum.mem
                                ),
                                case.trace("budget", 1, Some(b)),
                            );
                            break;
                        }
                        boundaries += 1;
                        ctx.stats.inc("budget_faults_fired", 1);
                        // A batched machine given the same insufficient budget must fail too.
                        let s = *ctx.rng.pick(&menu);
                        let eb = execute(&prog.term, cfg, b, s, false);
                        ctx.stats.inc("evaluations", 1);
                        if matches!(eb.outcome, Outcome::Value(_)) {
                            ctx.violation(
                                PROP,
                                "budget-threshold",
                                format!("budget-threshold|{}|{}", cfg.class(), prog.id),
                                format!(
                                    "program {} under {} costs cpu={c_cpu} mem={c_mem}; with budget cpu={} mem={} and slippage {s} it SUCCEEDS (remaining cpu={} mem={})",
                                    prog.id, cfg.class(), b.cpu, b.mem, eb.remaining.cpu, eb.remaining.mem
                                ),
                                case.trace("budget", s, Some(b)),
                            );
                        }
                        b = ExBudget {
                            cpu: cum.cpu.max(b.cpu),
                            mem: cum.mem.max(b.mem),
                        };
                    }
                    Outcome::Value(_) => {
                        if b.cpu != c_cpu || b.mem != c_mem {
                            ctx.violation(
                                PROP,
                                "boundary-walk",
                                format!("boundary-walk|{}|{}", cfg.class(), prog.id),
                                format!(
                                    "program {} under {}: walking spend boundaries, the machine first succeeds with budget cpu={} mem={} but its unlimited cost is cpu={c_cpu} mem={c_mem}",
                                    prog.id, cfg.class(), b.cpu, b.mem
                                ),
                                case.trace("budget", 1, Some(b)),
                            );
                        }
                        break;
                    }
                    other => {
                        ctx.violation(
                            PROP,
                            "budget-verdict",
                            format!("budget-verdict|{}|{}", cfg.class(), prog.id),
                            format!(
                                "program {} under {} succeeds with an ample budget but gives {other:?} with budget cpu={} mem={}",
                                prog.id, cfg.class(), b.cpu, b.mem
                            ),
                            case.trace("budget", 1, Some(b)),
                        );
                        break;
                    }
                }
            }
            ctx.stats.inc("boundary_walks", 1);
            ctx.stats.inc("boundaries_walked", boundaries);
        }
    } else {
        // A failing program: no budget may turn it into a success.
        for _ in 0..budget_points.min(4) {
            let b = ExBudget {
                cpu: ctx.rng.range(0, c_cpu.max(1) * 2),
                mem: ctx.rng.range(0, c_mem.max(1) * 2),
            };
            let s = *ctx.rng.pick(&menu);
            let e = execute(&prog.term, cfg, b, s, false);
            ctx.stats.inc("evaluations", 1);
            if matches!(e.outcome, Outcome::Value(_)) {
                ctx.violation(
                    PROP,
                    "budget-verdict",
                    format!("budget-verdict|{}|{}", cfg.class(), prog.id),
                    format!(
                        "program {} under {} fails with an ample budget but SUCCEEDS with budget cpu={} mem={} slippage {s}",
                        prog.id, cfg.class(), b.cpu, b.mem
                    ),
                    case.trace("budget", s, Some(b)),
                );
            }
        }
    }
}

/// `Program::<NamedDeBruijn>::{eval_version, eval_version_with_protocol, eval_as,
/// eval_as_with_protocol, eval_debug}` against the directly driven machine.
fn entry_points(
    ctx: &mut RunCtx,
    case: &Case<'_>,
    prog: &Prog,
    cfg: &Config,
    reference: &Exec,
    (c_cpu, c_mem): (i64, i64),
) {
    let lang = cfg.lang.language();
    let program = |t: &Term<NamedDeBruijn>| Program::<NamedDeBruijn> {
        version: (1, 1, 0),
        term: t.clone(),
    };
    let vector: Option<Vec<i64>> = match &cfg.costs {
        CostVec::Conformance => Some(match cfg.lang {
            Lang::V3 => corpus().v3_costs.clone(),
            _ => corpus().v2_costs.clone(),
        }),
        CostVec::Scaled(s) => Some(scale(
            &match cfg.lang {
                Lang::V3 => corpus().v3_costs.clone(),
                _ => corpus().v2_costs.clone(),
            },
            *s,
        )),
        _ => None,
    };
    // Which wrapper corresponds to this configuration?
    let budgets = [
        ("ample", big()),
        ("exact", ExBudget { cpu: c_cpu, mem: c_mem }),
        ("cpu-1", ExBudget { cpu: c_cpu - 1, mem: c_mem }),
    ];
    for (label, b) in budgets {
        let r = guard(|| match (&cfg.costs, &vector) {
            (CostVec::Default, _) => Some(program(&prog.term).eval_version(b, &lang)),
            (CostVec::LangProto, _) => Some(program(&prog.term).eval_version_with_protocol(b, &lang, cfg.protocol)),
            (_, Some(v)) => Some(program(&prog.term).eval_as_with_protocol(&lang, cfg.protocol, v, Some(&b))),
            _ => None,
        });
        ctx.stats.inc("evaluations", 1);
        ctx.stats.inc("entry_point_evaluations", 1);
        let Ok(Some(res)) = r else {
            if let Err(p) = r {
                ctx.violation(
                    PROP,
                    "entry-point",
                    format!("entry-point|panic|{}", cfg.class()),
                    format!("program {} under {}: Program::eval* panicked: {} @ {}", prog.id, cfg.class(), p.message, p.location),
                    case.trace("entry", 200, Some(b)),
                );
            }
            continue;
        };
        let cost = res.cost();
        let ok = res.result().is_ok();
        let expect_ok = label != "cpu-1";
        let pretty = res.result().ok().map(|t| t.to_pretty());
        let bad = if expect_ok {
            !ok || (cost.cpu, cost.mem) != (c_cpu, c_mem) || pretty.map(Outcome::Value).as_ref() != Some(&reference.outcome)
        } else {
            ok
        };
        if bad {
            ctx.violation(
                PROP,
                "entry-point",
                format!("entry-point|{}|{}", cfg.class(), prog.id),
                format!(
                    "program {} under {}: the public entry point (Program::eval_version / eval_version_with_protocol / eval_as_with_protocol, slippage 200) given budget {label} cpu={} mem={} returns ok={ok} cost cpu={} mem={}; the machine driven directly costs cpu={c_cpu} mem={c_mem}",
                    prog.id, cfg.class(), b.cpu, b.mem, cost.cpu, cost.mem
                ),
                case.trace("entry", 200, Some(b)),
            );
        }
    }
}

#[allow(clippy::too_many_arguments)]
fn budget_point(
    ctx: &mut RunCtx,
    case: &Case<'_>,
    prog: &Prog,
    cfg: &Config,
    reference: &Exec,
    total: ExBudget,
    b: ExBudget,
    s: u32,
    label: &'static str,
) {
    if b.cpu < 0 || b.mem < 0 {
        return;
    }
    let e = execute(&prog.term, cfg, b, s, false);
    ctx.stats.inc("evaluations", 1);
    ctx.stats.inc("budget_faults_injected", 1);
    let suffices = b.cpu >= total.cpu && b.mem >= total.mem;
    ctx.stats.add(
        "program_config_budget_class",
        hash_str(&format!("{}|{}|{label}", prog.id, cfg.class())),
    );
    ctx.event(&format!(
        "budget {label} cpu={} mem={} s={s} -> {}",
        b.cpu,
        b.mem,
        match &e.outcome {
            Outcome::Value(_) => "ok",
            Outcome::OutOfBudget => "oob",
            _ => "err",
        }
    ));
    match (&e.outcome, suffices) {
        (Outcome::Value(v), true) => {
            let rem = (b.cpu - total.cpu, b.mem - total.mem);
            if (e.remaining.cpu, e.remaining.mem) != rem
                || Outcome::Value(v.clone()) != reference.outcome
            {
                ctx.violation(
                    PROP,
                    "budget-remaining",
                    format!("budget-remaining|{}|{}", cfg.class(), prog.id),
                    format!(
                        "program {} under {} costs cpu={} mem={}; with budget cpu={} mem={} slippage {s} it succeeds with remaining cpu={} mem={} (expected cpu={} mem={}) result {}",
                        prog.id, cfg.class(), total.cpu, total.mem, b.cpu, b.mem, e.remaining.cpu, e.remaining.mem, rem.0, rem.1, short(v, 100)
                    ),
                    case.trace("budget", s, Some(b)),
                );
            }
        }
        (Outcome::Value(_), false) => {
            ctx.violation(
                PROP,
                "budget-threshold",
                format!("budget-threshold|{}|{}", cfg.class(), prog.id),
                format!(
                    "program {} under {} costs cpu={} mem={}; with the smaller budget cpu={} mem={} ({label}) and slippage {s} it SUCCEEDS, remaining cpu={} mem={}",
                    prog.id, cfg.class(), total.cpu, total.mem, b.cpu, b.mem, e.remaining.cpu, e.remaining.mem
                ),
                case.trace("budget", s, Some(b)),
            );
        }
        (Outcome::OutOfBudget, true) => {
            ctx.violation(
                PROP,
                "budget-threshold",
                format!("budget-threshold|{}|{}", cfg.class(), prog.id),
                format!(
                    "program {} under {} costs cpu={} mem={}; budget cpu={} mem={} ({label}) suffices but with slippage {s} evaluation fails for budget reasons (remaining cpu={} mem={})",
                    prog.id, cfg.class(), total.cpu, total.mem, b.cpu, b.mem, e.remaining.cpu, e.remaining.mem
                ),
                case.trace("budget", s, Some(b)),
            );
        }
        (Outcome::OutOfBudget, false) => {
            ctx.stats.inc("budget_faults_fired", 1);
        }
        (other, _) => {
            ctx.violation(
                PROP,
                "budget-verdict",
                format!("budget-verdict|{}|{}", cfg.class(), prog.id),
                format!(
                    "program {} under {} succeeds with an ample budget but gives {} with budget cpu={} mem={} slippage {s}",
                    prog.id, cfg.class(), short(&format!("{other:?}"), 200), b.cpu, b.mem
                ),
                case.trace("budget", s, Some(b)),
            );
        }
    }
}

/// Number of machine steps of a successful/failed execution, from the debug counters of an
/// unbatched run (each step kind's mem cost is its occurrence count × unit).
fn step_count(term: &Term<NamedDeBruijn>, cfg: &Config) -> Option<u64> {
    let term = term.clone();
    guard(|| {
        let mut m = machine(cfg, big(), 1, true);
        let _ = m.run(term);
        let cm = cost_model(cfg);
        let c = m.spend_counter?;
        let mut steps = 0u64;
        for k in 0..9usize {
            let unit = cm.machine_costs.get(StepKind::try_from(k as u8).ok()?);
            if unit.mem > 0 {
                steps += (c[k * 2] / unit.mem) as u64;
            } else if unit.cpu > 0 {
                steps += (c[k * 2 + 1] / unit.cpu) as u64;
            }
        }
        Some(steps)
    })
    .ok()
    .flatten()
}

fn parse_source(src: &str) -> Option<Term<NamedDeBruijn>> {
    let p = guard(|| uplc::parser::program(src)).ok()?.ok()?;
    Program::<NamedDeBruijn>::try_from(p).ok().map(|p| p.term)
}

// ------------------------------------------------------------------------------------------
// Size-boundary workload: "its costing function applied to the sizes of its arguments".
//
// A builtin's charge may depend on its arguments only through their sizes. An independent size
// model (integers: words of |n|; byte strings: 8-byte words; data: 4 per node plus leaves) groups
// probe arguments placed at and around every word boundary, positive and negative, bare and inside
// Data; within one (builtin, size) group every probe must be charged the same, whatever the cost
// parameters are. This needs no knowledge of the coefficients.

fn pow2(k: u32) -> num_bigint::BigInt {
    num_bigint::BigInt::from(1u8) << k
}

fn int_size(n: &num_bigint::BigInt) -> u64 {
    use num_bigint::Sign;
    if n.sign() == Sign::NoSign {
        1
    } else {
        (n.magnitude().bits() - 1) / 64 + 1
    }
}

fn bytes_size(len: usize) -> u64 {
    if len == 0 { 1 } else { (len as u64 - 1) / 8 + 1 }
}

fn probe_integers(rng: &mut Rng) -> Vec<num_bigint::BigInt> {
    let mut v = vec![num_bigint::BigInt::from(0), num_bigint::BigInt::from(1), num_bigint::BigInt::from(-1)];
    for words in 1..=5u32 {
        let lo = pow2(64 * (words - 1));
        let hi: num_bigint::BigInt = pow2(64 * words) - num_bigint::BigInt::from(1);
        let mid = &lo + (&hi - &lo) / num_bigint::BigInt::from(2 + rng.below(5));
        for x in [lo.clone(), &lo + num_bigint::BigInt::from(1), hi.clone(), &hi - num_bigint::BigInt::from(1), mid] {
            v.push(x.clone());
            v.push(-x);
        }
    }
    v
}

const INT_FAMILIES: &[(&str, &str)] = &[
    ("addInteger", "[ [ (builtin addInteger) (con integer {x}) ] (con integer 1) ]"),
    ("subtractInteger", "[ [ (builtin subtractInteger) (con integer 1) ] (con integer {x}) ]"),
    ("multiplyInteger", "[ [ (builtin multiplyInteger) (con integer {x}) ] (con integer 3) ]"),
    ("equalsInteger", "[ [ (builtin equalsInteger) (con integer {x}) ] (con integer {x}) ]"),
    ("lessThanInteger", "[ [ (builtin lessThanInteger) (con integer {x}) ] (con integer {x}) ]"),
    ("lessThanEqualsInteger", "[ [ (builtin lessThanEqualsInteger) (con integer {x}) ] (con integer {x}) ]"),
    ("divideInteger", "[ [ (builtin divideInteger) (con integer {x}) ] (con integer 7) ]"),
    ("modInteger", "[ [ (builtin modInteger) (con integer {x}) ] (con integer 7) ]"),
    ("quotientInteger", "[ [ (builtin quotientInteger) (con integer {x}) ] (con integer {x}) ]"),
    ("iData", "[ (builtin iData) (con integer {x}) ]"),
    ("serialiseData-I", "[ (builtin serialiseData) (con data (I {x})) ]"),
    ("serialiseData-List", "[ (builtin serialiseData) (con data (List [I {x}, I 1])) ]"),
    ("serialiseData-Constr", "[ (builtin serialiseData) (con data (Constr 3 [I {x}])) ]"),
    ("serialiseData-Map", "[ (builtin serialiseData) (con data (Map [(I {x}, B #00)])) ]"),
    ("equalsData-I", "[ [ (builtin equalsData) (con data (I {x})) ] (con data (I {x})) ]"),
    ("equalsData-nested", "[ [ (builtin equalsData) (con data (Constr 0 [List [I {x}]])) ] (con data (Constr 0 [List [I {x}]])) ]"),
    ("unIData", "[ (builtin unIData) (con data (I {x})) ]"),
    ("serialiseData-iData", "[ (builtin serialiseData) [ (builtin iData) (con integer {x}) ] ]"),
];

const BYTES_FAMILIES: &[(&str, &str)] = &[
    ("sha2_256", "[ (builtin sha2_256) (con bytestring #{b}) ]"),
    ("blake2b_256", "[ (builtin blake2b_256) (con bytestring #{b}) ]"),
    ("appendByteString", "[ [ (builtin appendByteString) (con bytestring #{b}) ] (con bytestring #{b}) ]"),
    ("equalsByteString", "[ [ (builtin equalsByteString) (con bytestring #{b}) ] (con bytestring #{b}) ]"),
    ("lessThanByteString", "[ [ (builtin lessThanByteString) (con bytestring #{b}) ] (con bytestring #{b}) ]"),
    ("lengthOfByteString", "[ (builtin lengthOfByteString) (con bytestring #{b}) ]"),
    ("consByteString", "[ [ (builtin consByteString) (con integer 1) ] (con bytestring #{b}) ]"),
    ("bData", "[ (builtin bData) (con bytestring #{b}) ]"),
    ("serialiseData-B", "[ (builtin serialiseData) (con data (B #{b})) ]"),
    ("equalsData-B", "[ [ (builtin equalsData) (con data (List [B #{b}])) ] (con data (List [B #{b}])) ]"),
];

fn size_probe_run(ctx: &mut RunCtx, j: u64) {
    let langs = [Lang::V3, Lang::V2, Lang::V1];
    let cfg = match j % 4 {
        0 => Config { lang: Lang::V3, protocol: 11, costs: CostVec::Conformance },
        1 => Config { lang: Lang::V2, protocol: 11, costs: CostVec::Conformance },
        2 => Config { lang: *ctx.rng.pick(&langs), protocol: ctx.rng.range(7, 11) as u16, costs: CostVec::LangProto },
        _ => Config { lang: Lang::V3, protocol: 10, costs: CostVec::Default },
    };
    ctx.stats.add("configs", hash_str(&cfg.class()));
    let ints = probe_integers(&mut ctx.rng);
    let byte_lens: Vec<usize> = vec![0, 1, 7, 8, 9, 15, 16, 17, 31, 32, 33, 63, 64, 65, 127, 128, 129];
    // (family, size) -> (cost, probe that set it)
    let mut groups: BTreeMap<(String, u64), ((i64, i64), String)> = BTreeMap::new();
    let mut check = |ctx: &mut RunCtx, family: &str, size: u64, probe: String, src: String| {
        let Some(term) = parse_source(&src) else {
            ctx.harness_error(format!("size probe does not parse: {src}"));
            return;
        };
        let e = execute(&term, &cfg, big(), 200, false);
        ctx.stats.inc("evaluations", 1);
        ctx.stats.inc("size_probes", 1);
        let cost = spent(big(), e.remaining);
        if !matches!(e.outcome, Outcome::Value(_)) {
            // unavailable builtin in this language / failing probe: nothing to compare
            ctx.stats.inc("size_probes_not_evaluating", 1);
            return;
        }
        ctx.stats.add("size_groups", hash_str(&format!("{family}|{size}|{}", cfg.class())));
        match groups.get(&(family.to_string(), size)) {
            None => {
                groups.insert((family.to_string(), size), (cost, probe));
            }
            Some((c0, p0)) => {
                if *c0 != cost {
                    let case = Case { prog_id: &format!("size-probe:{family}"), src: Some(&src), cfg: &cfg };
                    ctx.violation(
                        PROP,
                        "size-measure",
                        format!("size-measure|{family}|{}", cfg.class()),
                        format!(
                            "{family} under {}: two arguments of the same size ({size} words) are charged differently: {p0} costs cpu={} mem={}, {probe} costs cpu={} mem={} (a builtin's charge may depend on its arguments only through their sizes)",
                            cfg.class(), c0.0, c0.1, cost.0, cost.1
                        ),
                        json!({
                            "kind": "size-probe",
                            "family": family,
                            "config": cfg.to_json(),
                            "a": { "probe": p0, "size": size },
                            "b": { "probe": probe, "size": size, "source": src },
                        }),
                    );
                    let _ = case;
                }
            }
        }
    };
    for (family, template) in INT_FAMILIES {
        for n in &ints {
            let src = format!("(program 1.1.0 {})", template.replace("{x}", &n.to_string()));
            check(ctx, family, int_size(n), n.to_string(), src);
        }
    }
    for (family, template) in BYTES_FAMILIES {
        for len in &byte_lens {
            for fill in [0x00u8, 0xff] {
                let b = hex::encode(vec![fill; *len]);
                let src = format!("(program 1.1.0 {})", template.replace("{b}", &b));
                check(ctx, family, bytes_size(*len), format!("{len} bytes of {fill:02x}"), src);
            }
        }
    }
    // Symmetry: these builtins are charged by a symmetric function of their two argument sizes
    // (max / min / sum of the sizes, or "equal sizes ? linear : constant"), so swapping arguments
    // of different sizes must not change the charge — both arguments have to be measured by the
    // same rule. Strings include multi-byte characters so that bytes and characters differ.
    let x4 = X4;
    let sym: Vec<(&str, String, String)> = vec![
        ("addInteger", format!("(con integer {x4})"), "(con integer 7)".into()),
        ("subtractInteger", format!("(con integer {x4})"), "(con integer 7)".into()),
        ("multiplyInteger", format!("(con integer {x4})"), "(con integer 7)".into()),
        ("equalsInteger", format!("(con integer {x4})"), "(con integer 7)".into()),
        ("lessThanInteger", format!("(con integer {x4})"), "(con integer 7)".into()),
        ("lessThanEqualsInteger", format!("(con integer {x4})"), "(con integer 7)".into()),
        ("appendByteString", format!("(con bytestring #{B32})"), "(con bytestring #01)".into()),
        ("equalsByteString", format!("(con bytestring #{B32})"), "(con bytestring #01)".into()),
        ("lessThanByteString", format!("(con bytestring #{B32})"), "(con bytestring #01)".into()),
        ("lessThanEqualsByteString", format!("(con bytestring #{B32})"), "(con bytestring #01)".into()),
        ("appendString", "(con string \"\u{e9}\u{e9}\u{e9}\u{e9}\u{e9}\u{e9}\u{e9}\u{e9}\u{e9}\u{e9}\u{e9}\u{e9}\u{e9}\u{e9}\u{e9}\u{e9}\u{e9}\")".into(), "(con string \"x\")".into()),
        ("appendString", "(con string \"abcdefghijklmnopqrstuvwxyzabcdefghijklmnopqrstuvwxyz\")".into(), "(con string \"\")".into()),
        ("equalsString", "(con string \"\u{20ac}\u{20ac}\u{20ac}\u{20ac}\u{20ac}\u{20ac}\u{20ac}\u{20ac}\u{20ac}\u{20ac}\u{20ac}\")".into(), "(con string \"x\")".into()),
        ("equalsData", format!("(con data (List [I {x4}, B #{B32}]))"), "(con data (I 1))".into()),
    ];
    for (f, a, b) in sym {
        let run = |ctx: &mut RunCtx, l: &str, r: &str| -> Option<((i64, i64), String)> {
            let src = format!("(program 1.1.0 [ [ (builtin {f}) {l} ] {r} ])");
            let term = parse_source(&src)?;
            let e = execute(&term, &cfg, big(), 200, false);
            ctx.stats.inc("evaluations", 1);
            if !matches!(e.outcome, Outcome::Value(_)) {
                return None;
            }
            Some((spent(big(), e.remaining), src))
        };
        let (Some((c_ab, src_ab)), Some((c_ba, src_ba))) = (run(ctx, &a, &b), run(ctx, &b, &a)) else {
            ctx.stats.inc("symmetry_probes_not_evaluating", 1);
            continue;
        };
        ctx.stats.inc("symmetry_probes", 1);
        if c_ab != c_ba {
            ctx.violation(
                PROP,
                "argument-symmetry",
                format!("argument-symmetry|{f}|{}", cfg.class()),
                format!(
                    "{f} under {}: {src_ab} costs cpu={} mem={}, with the arguments swapped {src_ba} costs cpu={} mem={}; the ledger charges {f} by a symmetric function of the two argument sizes",
                    cfg.class(), c_ab.0, c_ab.1, c_ba.0, c_ba.1
                ),
                json!({ "kind": "symmetry-probe", "j": j, "builtin": f, "config": cfg.to_json(), "source": src_ab, "swapped": src_ba }),
            );
        }
    }
    ctx.event(&format!("size-probe {} groups={}", cfg.class(), groups.len()));
}

// ------------------------------------------------------------------------------------------
// Step-price perturbation: "the step cost of every machine step taken".
//
// Raising the ledger parameter `cek<Kind>Cost-exBudget<CPU|Memory>` by δ must raise the charge
// by exactly (number of steps of that kind)·δ in that dimension and by nothing in the other —
// whatever the other parameters are. The step counts come from the machine's own per-kind
// counters under the unperturbed vector. This pins each parameter *name* to its step kind and
// dimension without knowing any coefficient.

const STEP_PARAMS: &[(usize, &str)] = &[
    (0, "CekConstCost"),
    (1, "CekVarCost"),
    (2, "CekLamCost"),
    (3, "CekApplyCost"),
    (4, "CekDelayCost"),
    (5, "CekForceCost"),
    (6, "CekBuiltinCost"),
    (7, "CekConstrCost"),
    (8, "CekCaseCost"),
    (9, "CekStartupCost"),
];

fn param_index(lang: Lang, name: &str) -> Option<usize> {
    ledger_names(lang).iter().position(|p| *p == name)
}

/// The harness's own copy of the ledger's parameter order (see ledger_params.rs), not the
/// evaluator's table.
fn ledger_names(lang: Lang) -> &'static [&'static str] {
    match lang {
        Lang::V1 => crate::ledger_params::V1,
        Lang::V2 => crate::ledger_params::V2,
        Lang::V3 => crate::ledger_params::V3,
    }
}

fn eval_with_vector(term: &Term<NamedDeBruijn>, lang: Lang, vector: &[i64]) -> Option<((i64, i64), Vec<i64>, bool)> {
    let term = term.clone();
    guard(|| {
        let costs = initialize_cost_model_with_protocol(&lang.language(), 11, vector);
        let mut m = Machine::new_debug_with_protocol(lang.language(), 11, costs, big(), 200);
        let ok = m.run(term).is_ok();
        let counters: Vec<i64> = m.spend_counter.map(|c| c.to_vec()).unwrap_or_default();
        (spent(big(), m.ex_budget), counters, ok)
    })
    .ok()
}

fn step_price_probe(ctx: &mut RunCtx, prog: &Prog, src: Option<&str>) {
    let lang = prog.home;
    let base: Vec<i64> = match lang {
        Lang::V3 => corpus().v3_costs.clone(),
        _ => corpus().v2_costs.clone(),
    };
    let Some(((c_cpu, c_mem), counters, ok)) = eval_with_vector(&prog.term, lang, &base) else {
        return;
    };
    if !ok || counters.len() < 20 {
        return;
    }
    let model = initialize_cost_model_with_protocol(&lang.language(), 11, &base);
    let delta = 1000 + ctx.rng.range(1, 5000);
    for (kind, name) in STEP_PARAMS {
        let count = if *kind == 9 {
            1
        } else {
            let price = model.machine_costs.get(StepKind::try_from(*kind as u8).unwrap());
            if price.mem > 0 {
                counters[kind * 2] / price.mem
            } else if price.cpu > 0 {
                counters[kind * 2 + 1] / price.cpu
            } else {
                continue;
            }
        };
        for (dim, suffix) in [("cpu", "_exBudgetCPU"), ("mem", "_exBudgetMemory")] {
            let pname = format!("{name}{suffix}");
            let Some(i) = param_index(lang, &pname).filter(|i| *i < base.len()) else {
                continue;
            };
            let mut v = base.clone();
            v[i] += delta;
            let Some(((cpu, mem), _, ok2)) = eval_with_vector(&prog.term, lang, &v) else {
                continue;
            };
            ctx.stats.inc("evaluations", 1);
            ctx.stats.inc("step_price_perturbations", 1);
            let want = if dim == "cpu" { (c_cpu + count * delta, c_mem) } else { (c_cpu, c_mem + count * delta) };
            if !ok2 || (cpu, mem) != want {
                ctx.violation(
                    PROP,
                    "step-price",
                    format!("step-price|{pname}|{}", lang.tag()),
                    format!(
                        "program {} ({} steps of this kind) under the {} ledger vector: raising {pname} by {delta} changes the charge from cpu={c_cpu} mem={c_mem} to cpu={cpu} mem={mem}; it must become cpu={} mem={}",
                        prog.id, count, lang.tag(), want.0, want.1
                    ),
                    json!({
                        "kind": "step-price",
                        "program": prog.id,
                        "source": src,
                        "lang": lang.tag(),
                        "param": pname,
                        "delta": delta,
                    }),
                );
            }
        }
    }
}

// ------------------------------------------------------------------------------------------
// Parameter non-interference: a ledger parameter that belongs to builtin B (its name starts with
// `B_cpu_arguments` / `B_memory_arguments`) may change the charge of a program only if the program
// contains B, and a `_cpu_` parameter may change only the cpu figure, a `_memory_` one only mem.

fn norm(s: &str) -> String {
    s.chars().filter(|c| *c != '_').flat_map(|c| c.to_lowercase()).collect()
}

fn builtins_of(term: &Term<NamedDeBruijn>) -> std::collections::BTreeSet<String> {
    let mut out = std::collections::BTreeSet::new();
    let mut stack = vec![term];
    while let Some(t) = stack.pop() {
        match t {
            Term::Builtin(f) => {
                out.insert(norm(&format!("{f:?}")));
            }
            Term::Delay(b) | Term::Force(b) => stack.push(b),
            Term::Lambda { body, .. } => stack.push(body),
            Term::Apply { function, argument } => {
                stack.push(function);
                stack.push(argument);
            }
            Term::Constr { fields, .. } => stack.extend(fields.iter()),
            Term::Case { constr, branches } => {
                stack.push(constr);
                stack.extend(branches.iter());
            }
            _ => {}
        }
    }
    out
}

fn param_names(lang: Lang) -> Vec<String> {
    ledger_names(lang).iter().map(|p| p.to_string()).collect()
}

fn param_interference_probe(ctx: &mut RunCtx, prog: &Prog, src: Option<&str>, how_many: usize) {
    let lang = prog.home;
    let base: Vec<i64> = match lang {
        Lang::V3 => corpus().v3_costs.clone(),
        _ => corpus().v2_costs.clone(),
    };
    let Some((c0, _, ok)) = eval_with_vector(&prog.term, lang, &base) else {
        return;
    };
    if !ok {
        return;
    }
    let used = builtins_of(&prog.term);
    let names = param_names(lang);
    let n = names.len().min(base.len());
    let mut indices: Vec<usize> = (0..n).collect();
    ctx.rng.shuffle(&mut indices);
    // parameters of the program's own builtins first, then a random sample of the others
    indices.sort_by_key(|i| {
        let owner = names[*i].split("_cpu_arguments").next().unwrap_or("").split("_memory_arguments").next().unwrap_or("").to_string();
        !used.contains(&norm(&owner))
    });
    let own = indices.iter().filter(|i| {
        let owner = names[**i].split("_cpu_arguments").next().unwrap_or("").split("_memory_arguments").next().unwrap_or("").to_string();
        used.contains(&norm(&owner))
    }).count();
    indices.truncate(own + how_many);
    let delta = 7 + ctx.rng.range(1, 1000);
    for i in indices {
        let name = &names[i];
        if name.starts_with("Cek") {
            continue;
        }
        let (owner, dim) = if let Some(o) = name.split("_cpu_arguments").next().filter(|_| name.contains("_cpu_arguments")) {
            (o.to_string(), "cpu")
        } else if let Some(o) = name.split("_memory_arguments").next().filter(|_| name.contains("_memory_arguments")) {
            (o.to_string(), "mem")
        } else {
            continue;
        };
        let mut v = base.clone();
        v[i] = v[i].saturating_add(delta);
        let Some((c1, _, ok1)) = eval_with_vector(&prog.term, lang, &v) else {
            continue;
        };
        ctx.stats.inc("evaluations", 1);
        ctx.stats.inc("param_interference_probes", 1);
        let mine = used.contains(&norm(&owner));
        let bad = if !ok1 {
            Some("the program no longer evaluates".to_string())
        } else if !mine && c1 != c0 {
            Some(format!("the program does not contain builtin {owner}, yet its charge changes from cpu={} mem={} to cpu={} mem={}", c0.0, c0.1, c1.0, c1.1))
        } else if mine && dim == "cpu" && c1.1 != c0.1 {
            Some(format!("a cpu parameter changes the memory figure from {} to {}", c0.1, c1.1))
        } else if mine && dim == "mem" && c1.0 != c0.0 {
            Some(format!("a memory parameter changes the cpu figure from {} to {}", c0.0, c1.0))
        } else {
            None
        };
        if let Some(why) = bad {
            ctx.violation(
                PROP,
                "param-interference",
                format!("param-interference|{name}|{}", lang.tag()),
                format!(
                    "program {} (builtins {:?}) under the {} ledger vector: raising {name} by {delta}: {why}",
                    prog.id, used, lang.tag()
                ),
                json!({ "kind": "param-interference", "program": prog.id, "source": src, "lang": lang.tag(), "param": name, "delta": delta }),
            );
        }
    }
}


// ------------------------------------------------------------------------------------------
// Vector-position probe: "equal the ledger cost model" for the mapping from the ledger's ordered
// parameter list to what each builtin is charged.
//
// One builtin call with multi-word arguments is evaluated under the ledger vector and again with
// ONE position of the vector raised by δ. The harness's own copy of the ledger's order says what
// that position means. For a position that belongs to the called builtin: a cpu parameter may move
// only the cpu figure and a memory parameter only the memory figure; and if the parameter is the
// additive term of its costing function (`…-intercept`, `…-constant`, `…-c0`, `…-c00`, a bare
// constant cost) one call can pay it at most once, so the charge moves by 0 or exactly δ — while a
// per-word coefficient fed into that position would move it by δ times the (multi-word) size.
// A position that belongs to another builtin must not move the charge at all.

const X4: &str = "1606938044258990275541962092341162602522202993782792835301376"; // 2^200: 4 words
const X2: &str = "1267650600228229401496703205376"; // 2^100: 2 words
const B32: &str = "000102030405060708090a0b0c0d0e0f101112131415161718191a1b1c1d1e1f";
const B17: &str = "a0a1a2a3a4a5a6a7a8a9aaabacadaeaf10";

fn position_families() -> Vec<(&'static str, String)> {
    let i = |x: &str| format!("(con integer {x})");
    let b = |x: &str| format!("(con bytestring #{x})");
    let two = |f: &str, a: String, c: String| format!("[ [ (builtin {f}) {a} ] {c} ]");
    let one = |f: &str, a: String| format!("[ (builtin {f}) {a} ]");
    let three = |f: &str, a: String, c: String, d: String| format!("[ [ [ (builtin {f}) {a} ] {c} ] {d} ]");
    let mut v: Vec<(&'static str, String)> = vec![];
    for f in ["addInteger", "subtractInteger", "multiplyInteger", "divideInteger", "quotientInteger", "remainderInteger", "modInteger"] {
        v.push((f, two(f, i(X4), i(X2))));
    }
    for f in ["divideInteger", "modInteger", "quotientInteger", "remainderInteger"] {
        v.push((f, two(f, i(X2), i(X4))));
    }
    for f in ["equalsInteger", "lessThanInteger", "lessThanEqualsInteger"] {
        v.push((f, two(f, i(X4), i(X4))));
    }
    v.push(("appendByteString", two("appendByteString", b(B32), b(B17))));
    v.push(("consByteString", two("consByteString", i("1"), b(B32))));
    v.push(("sliceByteString", three("sliceByteString", i("1"), i("20"), b(B32))));
    v.push(("lengthOfByteString", one("lengthOfByteString", b(B32))));
    v.push(("indexByteString", two("indexByteString", b(B32), i("3"))));
    for f in ["equalsByteString", "lessThanByteString", "lessThanEqualsByteString"] {
        v.push((f, two(f, b(B32), b(B32))));
    }
    for f in ["sha2_256", "sha3_256", "blake2b_256", "blake2b_224", "keccak_256", "ripemd_160", "complementByteString", "countSetBits", "findFirstSetBit", "bData", "decodeUtf8"] {
        let arg = if f == "decodeUtf8" { b("6162636465666768696a6b6c6d6e6f707172737475767778") } else { b(B32) };
        v.push((f, one(f, arg)));
    }
    let s24 = "(con string \"abcdefghijklmnopqrstuvwx\")".to_string();
    v.push(("appendString", two("appendString", s24.clone(), s24.clone())));
    v.push(("equalsString", two("equalsString", s24.clone(), s24.clone())));
    v.push(("encodeUtf8", one("encodeUtf8", s24)));
    v.push(("iData", one("iData", i(X4))));
    v.push(("unIData", one("unIData", format!("(con data (I {X4}))"))));
    v.push(("unBData", one("unBData", format!("(con data (B #{B32}))"))));
    v.push(("equalsData", two("equalsData", format!("(con data (List [I {X4}, B #{B32}]))"), format!("(con data (List [I {X4}, B #{B32}]))"))));
    v.push(("serialiseData", one("serialiseData", format!("(con data (List [I {X4}, B #{B32}]))"))));
    v.push(("integerToByteString", three("integerToByteString", "(con bool False)".into(), i("0"), i(X4))));
    v.push(("integerToByteString", three("integerToByteString", "(con bool True)".into(), i("40"), i(X2))));
    v.push(("byteStringToInteger", two("byteStringToInteger", "(con bool False)".into(), b(B32))));
    for f in ["andByteString", "orByteString", "xorByteString"] {
        v.push((f, three(f, "(con bool False)".into(), b(B32), b(B17))));
        v.push((f, three(f, "(con bool True)".into(), b(B17), b(B32))));
    }
    v.push(("readBit", two("readBit", b(B32), i("5"))));
    v.push(("shiftByteString", two("shiftByteString", b(B32), i("3"))));
    v.push(("rotateByteString", two("rotateByteString", b(B32), i("3"))));
    v.push(("replicateByte", two("replicateByte", i("20"), i("7"))));
    v.push(("writeBits", three("writeBits", b(B32), "(con (list integer) [1, 2, 3])".into(), "(con bool True)".into())));
    v.push(("verifyEd25519Signature", three("verifyEd25519Signature", b(B32), b(B17), b(&B32.repeat(2)))));
    v
}

fn owner_and_dim(name: &str) -> Option<(String, &'static str, String)> {
    if let Some(p) = name.find("_cpu_arguments") {
        return Some((norm(&name[..p]), "cpu", name[p + "_cpu_arguments".len()..].to_string()));
    }
    if let Some(p) = name.find("_memory_arguments") {
        return Some((norm(&name[..p]), "mem", name[p + "_memory_arguments".len()..].to_string()));
    }
    None
}

fn is_additive_term(suffix: &str) -> bool {
    matches!(
        suffix,
        "" | "_intercept" | "_constant" | "_c0" | "_c00" | "_coefficient00" | "_model_arguments_intercept" | "_model_arguments_c00"
    )
}

const POSITION_RUNS_QUICK: u64 = 6;
const POSITION_RUNS_THOROUGH: u64 = 18;

fn position_probe_run(ctx: &mut RunCtx, j: u64) {
    if let Err(e) = crate::ledger_params::self_check() {
        ctx.harness_error(e);
        return;
    }
    let lang = [Lang::V3, Lang::V2, Lang::V1][(j % 3) as usize];
    let base: Vec<i64> = match lang {
        Lang::V3 => corpus().v3_costs.clone(),
        _ => corpus().v2_costs.clone(),
    };
    let names = ledger_names(lang);
    let n = names.len().min(base.len());
    let delta = 1000 + ctx.rng.range(1, 100_000);
    let mut evaluated = 0u64;
    for (f, body) in position_families() {
        let src = format!("(program 1.1.0 {body})");
        let Some(term) = parse_source(&src) else {
            ctx.stats.inc("position_probe_templates_not_parsing", 1);
            continue;
        };
        let Some((c0, _, ok)) = eval_with_vector(&term, lang, &base) else { continue };
        if !ok {
            ctx.stats.inc("position_probe_templates_not_evaluating", 1);
            continue;
        }
        evaluated += 1;
        let me = norm(f);
        // every position of the called builtin, plus a seeded sample of foreign positions
        let mut positions: Vec<usize> = (0..n).filter(|i| owner_and_dim(names[*i]).map(|(o, _, _)| o == me).unwrap_or(false)).collect();
        ctx.stats.add("position_probe_own_positions", hash_str(&format!("{}|{f}|{}", lang.tag(), positions.len())));
        for _ in 0..12 {
            positions.push(ctx.rng.below(n as u64) as usize);
        }
        for i in positions {
            let name = names[i];
            let Some((owner, dim, suffix)) = owner_and_dim(name) else { continue };
            let mut v = base.clone();
            v[i] = v[i].saturating_add(delta);
            let Some((c1, _, ok1)) = eval_with_vector(&term, lang, &v) else { continue };
            ctx.stats.inc("evaluations", 1);
            ctx.stats.inc("position_probes", 1);
            let (d_cpu, d_mem) = (c1.0 - c0.0, c1.1 - c0.1);
            let mine = owner == me;
            let (own, other) = if dim == "cpu" { (d_cpu, d_mem) } else { (d_mem, d_cpu) };
            let bad = if !ok1 {
                Some("the call no longer evaluates".to_string())
            } else if !mine && (d_cpu != 0 || d_mem != 0) {
                Some(format!("position {i} of the ledger vector is {name}, a parameter of another builtin, yet the charge moves by cpu={d_cpu} mem={d_mem}"))
            } else if mine && other != 0 {
                Some(format!("position {i} of the ledger vector is {name}, a {dim} parameter, yet the other figure moves by {other}"))
            } else if mine && is_additive_term(&suffix) && own != 0 && own != delta {
                Some(format!("position {i} of the ledger vector is {name}, the additive term of the costing function: one call can pay it at most once, yet the {dim} figure moves by {own} (δ = {delta})"))
            } else {
                None
            };
            if mine && is_additive_term(&suffix) {
                ctx.stats.inc("position_probe_additive_terms", 1);
                if own == delta {
                    ctx.stats.inc("position_probe_additive_terms_paid", 1);
                }
            }
            if let Some(why) = bad {
                ctx.violation(
                    PROP,
                    "vector-position",
                    format!("vector-position|{name}|{}", lang.tag()),
                    format!("{src} under the {} ledger vector, position {i} raised by {delta}: {why}", lang.tag()),
                    json!({ "kind": "position-probe", "j": j, "lang": lang.tag(), "param": name, "index": i, "source": src }),
                );
            }
        }
    }
    if evaluated < 20 {
        ctx.harness_error(format!("vector-position probe: only {evaluated} builtin calls evaluated under {}", lang.tag()));
    }
    ctx.event(&format!("position-probe {} evaluated={evaluated}", lang.tag()));
}

const SIZE_PROBE_RUNS_QUICK: u64 = 16;
const SIZE_PROBE_RUNS_THOROUGH: u64 = 64;
const COMPILED_RUNS_QUICK: u64 = 140;
const COMPILED_RUNS_THOROUGH: u64 = 700;

/// Workload W1/W3: programs the real compiler emits — every unit test of an acceptance project (or
/// of a freshly generated multi-module project) and every property-test fuzzer applied to a seeded
/// PRNG value. They are much longer than the corpus programs (thousands of machine steps), so the
/// default batching interval is crossed many times.
fn compiled_run(ctx: &mut RunCtx, j: u64) {
    use crate::project::*;
    use aiken_lang::test_framework::{Prng, Test};
    let acc = acceptance_projects();
    let spec = if j % 4 == 3 {
        crate::genproj::generate(&mut ctx.rng).spec
    } else {
        acc[((j - j / 4) as usize) % acc.len()].clone()
    };
    ctx.event(&format!("compiled project {}", spec.id));
    let seed = ctx.rng.below(1 << 30) as u32;
    let tier = ctx.tier;
    crate::hashseed::set_epoch(0xC05_0001);
    let ctx_ref = &mut *ctx;
    with_pool(1, move || {
        let ctx = ctx_ref;
        let disk = RunDisk::new();
        disk.materialize(&spec, &identity_order(&spec));
        let mut opts = Opts::default_check();
        opts.trace_level = ctx.rng.below(3) as u8;
        let tests = match crate::proptest::compile_all_tests(&disk.root, &opts) {
            Ok(t) => t,
            Err(_) => {
                ctx.stats.inc("compiled_projects_not_compiling", 1);
                return;
            }
        };
        let mut programs: Vec<(String, Program<uplc::ast::Name>)> = vec![];
        for t in &tests {
            match t {
                Test::UnitTest(u) => programs.push((format!("{}::{}::{}", spec.id, u.module, u.name), u.program.clone())),
                Test::PropertyTest(p) => programs.push((
                    format!("{}::{}::{}::fuzzer", spec.id, p.module, p.name),
                    p.fuzzer.program.apply_data(Prng::from_seed(seed).uplc()),
                )),
                Test::Benchmark(_) => {}
            }
        }
        let budget = match tier {
            Tier::Quick => 6,
            Tier::Thorough => 12,
        };
        if programs.len() > budget {
            ctx.rng.shuffle(&mut programs);
            programs.truncate(budget);
        }
        for (id, p) in programs {
            // compiled programs are not reproducible from an id alone: the replay trace carries
            // their pretty-printed source (named form, which the parser reads back)
            let src = p.to_pretty();
            let Ok(named) = Program::<NamedDeBruijn>::try_from(p) else {
                continue;
            };
            // only keep programs whose printed form reads back to the same term
            if parse_source(&src).as_ref() != Some(&named.term) {
                ctx.stats.inc("compiled_programs_not_roundtripping_skipped", 1);
                continue;
            }
            let prog = Prog {
                id,
                source: ProgSource::Compiled,
                term: named.term,
                golden: None,
                home: Lang::V3,
            };
            ctx.stats.inc("runs_compiled_programs", 1);
            let cfgs = [
                Config { lang: Lang::V3, protocol: 11, costs: CostVec::Conformance },
                Config { lang: Lang::V3, protocol: 10, costs: CostVec::Default },
            ];
            let cfg = &cfgs[ctx.rng.usize_below(2)];
            ctx.stats.add("configs", hash_str(&cfg.class()));
            check_program(ctx, &prog, Some(&src), cfg, None, 4, false);
        }
    });
    crate::hashseed::clear_epoch();
}

impl Engine for BudgetEngine {
    fn property(&self) -> &'static str {
        PROP
    }
    fn name(&self) -> &'static str {
        "sim-budget"
    }
    fn engine_id(&self) -> u64 {
        5
    }
    fn runs(&self, tier: Tier) -> u64 {
        let n = corpus().programs.len() as u64;
        match tier {
            Tier::Quick => n + 400 + COMPILED_RUNS_QUICK + SIZE_PROBE_RUNS_QUICK + POSITION_RUNS_QUICK,
            Tier::Thorough => 3 * n + 6000 + COMPILED_RUNS_THOROUGH + SIZE_PROBE_RUNS_THOROUGH + POSITION_RUNS_THOROUGH,
        }
    }

    fn run(&self, ctx: &mut RunCtx) {
        {
            let n = corpus().programs.len() as u64;
            let base = match ctx.tier {
                Tier::Quick => n + 400,
                Tier::Thorough => 3 * n + 6000,
            };
            let compiled = match ctx.tier {
                Tier::Quick => COMPILED_RUNS_QUICK,
                Tier::Thorough => COMPILED_RUNS_THOROUGH,
            };
            let size_runs = match ctx.tier {
                Tier::Quick => SIZE_PROBE_RUNS_QUICK,
                Tier::Thorough => SIZE_PROBE_RUNS_THOROUGH,
            };
            if ctx.k >= base + compiled + size_runs {
                position_probe_run(ctx, ctx.k - base - compiled - size_runs);
                return;
            }
            if ctx.k >= base + compiled {
                size_probe_run(ctx, ctx.k - base - compiled);
                return;
            }
            if ctx.k >= base {
                compiled_run(ctx, ctx.k - base);
                return;
            }
        }
        let c = corpus();
        let n = c.programs.len() as u64;
        if c.v2_costs.len() < 150 || c.v3_costs.len() < 250 || n < 500 {
            ctx.harness_error(format!(
                "corpus not usable: {} programs, v2 vector {} entries, v3 vector {} entries",
                n,
                c.v2_costs.len(),
                c.v3_costs.len()
            ));
            return;
        }
        let pass = ctx.k / n;
        let corpus_run = match ctx.tier {
            Tier::Quick => ctx.k < n,
            Tier::Thorough => ctx.k < 3 * n,
        };
        let (prog, src) = if corpus_run {
            match c.programs[(ctx.k % n) as usize].parse() {
                Some(p) => (p, None),
                None => {
                    ctx.harness_error("corpus program stopped parsing".into());
                    return;
                }
            }
        } else {
            let (id, src) = gen_program(&mut ctx.rng);
            match parse_source(&src) {
                Some(term) => (
                    Prog {
                        id,
                        source: ProgSource::Generated,
                        term,
                        golden: None,
                        home: Lang::V3,
                    },
                    Some(src),
                ),
                None => {
                    ctx.harness_error(format!("generated program does not parse: {src}"));
                    return;
                }
            }
        };
        ctx.stats.inc(
            match prog.source {
                ProgSource::Corpus => "runs_corpus",
                ProgSource::Generated => "runs_generated",
                ProgSource::Compiled => "runs_compiled",
            },
            1,
        );
        if let Some(src) = &src {
            ctx.event(&format!("source {src}"));
        }
        let cfgs = configs_for(&mut ctx.rng, &prog, ctx.tier);
        ctx.event(&format!("configs {:?}", cfgs.iter().map(|c| c.class()).collect::<Vec<_>>()));
        if prog.source == ProgSource::Corpus && (pass == 0) {
            step_price_probe(ctx, &prog, src.as_deref());
            // every parameter of the vector (a sample would meet a given mix-up only rarely)
            let sample = 400;
            param_interference_probe(ctx, &prog, src.as_deref(), sample);
        } else if prog.source == ProgSource::Generated && ctx.k % 4 == 0 {
            step_price_probe(ctx, &prog, src.as_deref());
        }
        let walk = ctx.tier == Tier::Thorough && (pass == 0 || prog.source == ProgSource::Generated)
            || (ctx.tier == Tier::Quick && ctx.k % 16 == 0);
        for (i, cfg) in cfgs.iter().enumerate() {
            ctx.stats
                .add("configs", hash_str(&cfg.class()));
            let points = match ctx.tier {
                Tier::Quick => 6,
                Tier::Thorough => 14,
            };
            check_program(ctx, &prog, src.as_deref(), cfg, None, points, walk && i == 0);
        }
        if ctx.k % 97 == 0 {
            ctx.stats.sample(json!({
                "program": prog.id,
                "source": src.as_deref().map(|s| short(s, 300)),
                "configs": cfgs.iter().map(|c| c.class()).collect::<Vec<_>>(),
                "checks": "reference(slippage 1, ample) vs 15-17 batching intervals; budgets exact/±1/zero/startup/random × random slippage; debug-counter sum; golden budget",
            }));
        }
    }

    fn replay(&self, trace: &Value, ctx: &mut RunCtx) {
        if jstr(trace, "kind") == "param-interference" {
            let id = jstr(trace, "program");
            let src = trace.get("source").and_then(|s| s.as_str());
            let prog = match src {
                Some(src) => parse_source(src).map(|term| Prog { id: id.clone(), source: ProgSource::Generated, term, golden: None, home: Lang::parse(&jstr(trace, "lang")) }),
                None => corpus().programs.iter().find(|p| p.id == id).and_then(|p| p.parse()),
            };
            match prog {
                // replays every parameter: the violating one is among them
                Some(p) => param_interference_probe(ctx, &p, src, 400),
                None => ctx.harness_error("replay: unknown program".into()),
            }
            return;
        }
        if jstr(trace, "kind") == "symmetry-probe" {
            size_probe_run(ctx, ju64(trace, "j"));
            return;
        }
        if jstr(trace, "kind") == "position-probe" {
            position_probe_run(ctx, ju64(trace, "j"));
            return;
        }
        if jstr(trace, "kind") == "step-price" {
            let id = jstr(trace, "program");
            let src = trace.get("source").and_then(|s| s.as_str());
            let prog = match src {
                Some(src) => parse_source(src).map(|term| Prog { id: id.clone(), source: ProgSource::Generated, term, golden: None, home: Lang::parse(&jstr(trace, "lang")) }),
                None => corpus().programs.iter().find(|p| p.id == id).and_then(|p| p.parse()),
            };
            match prog {
                Some(p) => step_price_probe(ctx, &p, src),
                None => ctx.harness_error("replay: unknown program".into()),
            }
            return;
        }
        if jstr(trace, "kind") == "size-probe" {
            let cfg = Config::from_json(trace.get("config").unwrap_or(&Value::Null));
            let family = jstr(trace, "family");
            let b = trace.get("b").cloned().unwrap_or(Value::Null);
            let a = trace.get("a").cloned().unwrap_or(Value::Null);
            let src_b = jstr(&b, "source");
            // rebuild probe a from its family template
            let probe_a = jstr(&a, "probe");
            let template = INT_FAMILIES.iter().chain(BYTES_FAMILIES.iter()).find(|(f, _)| *f == family).map(|(_, t)| *t);
            let src_a = template.map(|t| {
                if let Some(len) = probe_a.split(' ').next().and_then(|l| l.parse::<usize>().ok()).filter(|_| probe_a.contains("bytes of")) {
                    let fill = u8::from_str_radix(probe_a.rsplit(' ').next().unwrap_or("00"), 16).unwrap_or(0);
                    format!("(program 1.1.0 {})", t.replace("{b}", &hex::encode(vec![fill; len])))
                } else {
                    format!("(program 1.1.0 {})", t.replace("{x}", &probe_a))
                }
            });
            if let (Some(sa), Some(ta), Some(tb)) = (src_a.clone(), src_a.as_deref().and_then(parse_source), parse_source(&src_b)) {
                let ea = execute(&ta, &cfg, big(), 200, false);
                let eb = execute(&tb, &cfg, big(), 200, false);
                let (ca, cb) = (spent(big(), ea.remaining), spent(big(), eb.remaining));
                if ca != cb {
                    ctx.violation(
                        PROP,
                        "size-measure",
                        format!("size-measure|{family}|{}", cfg.class()),
                        format!("{family}: {sa} costs {ca:?}, {src_b} costs {cb:?}, same argument size"),
                        trace.clone(),
                    );
                }
            } else {
                ctx.harness_error("replay: cannot rebuild size probes".into());
            }
            return;
        }
        let cfg = Config::from_json(trace.get("config").unwrap_or(&Value::Null));
        let id = jstr(trace, "program");
        let src = trace.get("source").and_then(|s| s.as_str());
        let prog = match src {
            Some(src) => match parse_source(src) {
                Some(term) => Prog {
                    id: id.clone(),
                    source: ProgSource::Generated,
                    term,
                    golden: None,
                    home: Lang::V3,
                },
                None => {
                    ctx.harness_error("replay: source does not parse".into());
                    return;
                }
            },
            None => match corpus().programs.iter().find(|p| p.id == id).and_then(|p| p.parse()) {
                Some(p) => p,
                None => {
                    ctx.harness_error(format!("replay: unknown program {id}"));
                    return;
                }
            },
        };
        let s = ju64(trace, "slippage") as u32;
        let kind = jstr(trace, "kind");
        match kind.as_str() {
            "entry" => {
                let reference = execute(&prog.term, &cfg, big(), 1, true);
                let (c_cpu, c_mem) = spent(big(), reference.remaining);
                let case = Case { prog_id: &prog.id, src, cfg: &cfg };
                if matches!(reference.outcome, Outcome::Value(_)) {
                    entry_points(ctx, &case, &prog, &cfg, &reference, (c_cpu, c_mem));
                }
            }
            "budget" => {
                let reference = execute(&prog.term, &cfg, big(), 1, true);
                let (c_cpu, c_mem) = spent(big(), reference.remaining);
                let b = trace.get("budget").cloned().unwrap_or(Value::Null);
                let b = ExBudget {
                    cpu: ji64(&b, "cpu"),
                    mem: ji64(&b, "mem"),
                };
                let case = Case {
                    prog_id: &prog.id,
                    src,
                    cfg: &cfg,
                };
                if matches!(reference.outcome, Outcome::Value(_)) {
                    budget_point(
                        ctx,
                        &case,
                        &prog,
                        &cfg,
                        &reference,
                        ExBudget {
                            cpu: c_cpu,
                            mem: c_mem,
                        },
                        b,
                        s,
                        "replay",
                    );
                    if ctx.violations.is_empty() {
                        // boundary-walk class: redo the walk
                        check_program(ctx, &prog, src, &cfg, Some(vec![s]), 0, true);
                    }
                } else {
                    check_program(ctx, &prog, src, &cfg, Some(vec![s]), 8, false);
                }
            }
            _ => {
                check_program(ctx, &prog, src, &cfg, Some(vec![s]), 0, false);
            }
        }
    }

    fn evidence(&self, stats: &Stats, _tier: Tier) -> EvidenceParts {
        let c = corpus();
        EvidenceParts {
            level: "exploration",
            evaluations: stats.get("evaluations"),
            distinct_nontrivial: stats.distinct("program_config_slippage_class")
                + stats.distinct("program_config_budget_class"),
            rule: "one run = one program (conformance corpus in order, then seeded generated countdown loops) × 3-6 seeded configurations (language × protocol 7-11 × cost vector) × {reference unbatched, 15-17 batching intervals, exact/±1/zero/start-up/random budgets each under a random interval, spend-boundary walk}; distinct = distinct (program, configuration, slippage class) + (program, configuration, budget class) tuples; non-trivial = the reference terminated without exhausting the ample budget".into(),
            extra: json!({
                "corpus_programs": c.programs.len(),
                "corpus_parse_failures_skipped": c.parse_failures,
                "fault_kinds": {
                    "budget_exhaustion_injected": stats.get("budget_faults_injected"),
                    "budget_exhaustion_fired_as_out_of_budget": stats.get("budget_faults_fired"),
                    "batching_schedules": stats.get("batching_schedules"),
                    "spend_boundaries_walked": stats.get("boundaries_walked"),
                },
                "golden_budgets_compared": stats.get("golden_compared"),
                "components": {
                    "real": ["uplc::machine (Machine, cost_model, runtime, value)", "uplc::parser"],
                    "simulated": ["batching interval (slippage)", "initial budget", "language × protocol × cost vector"],
                    "stubbed": []
                }
            }),
            assumptions: vec![
                "the unbatched execution (slippage 1) of the same machine is the reference for batching independence; the ledger figures themselves are checked only where upstream golden budgets exist (conformance corpus)".into(),
                "builtins or argument sizes that no corpus or generated program exercises are not covered".into(),
            ],
        }
    }

    fn hang_bound(&self, _tier: Tier) -> std::time::Duration {
        std::time::Duration::from_secs(240)
    }
}
