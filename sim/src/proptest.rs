//! C16 `sim-proptest`: property tests are reproducible and their counterexamples are real.
//!
//! Aiken's property-test framework is itself a small seeded simulator with replay and
//! minimisation; it is checked the way one checks one's own: re-run in other contexts, replay,
//! and compare with a simpler model.
//!
//! Reference model: the property's meaning without any shrinking machinery, built only from
//! `Prng::from_seed`, `Prng::sample`, `PropertyTest::eval`.
//! Second model: the memo table (`Cache`) against the uncached function over pure-Rust model
//! fuzzers with data-dependent consumption, driven with the edits `simplify` makes.

use crate::common::*;
use crate::driver::{Engine, EvidenceParts};
use crate::genproj::FUZZ_LIB;
use crate::hashseed;
use crate::project::*;
use crate::rng::Rng;
use aiken_lang::ast::{Definition, OnTestFailure};
use aiken_lang::plutus_version::PlutusVersion;
use aiken_lang::test_framework::{Cache, Prng, PropertyTest, RunnableKind, Status, Test};
use serde::{Deserialize, Serialize};
use serde_json::{Value, json};
use std::cell::Cell;
use std::collections::BTreeMap;
use std::path::Path;
use uplc::PlutusData;

pub struct PropEngine;

const PROP: &str = "C16";

#[derive(Clone, Debug, Serialize, Deserialize, PartialEq)]
pub struct PropDef {
    pub name: String,
    pub source: String,
    pub shape: String,
}

const HELPERS: &str = r#"
fn total(xs: List<Int>) -> Int {
  when xs is {
    [] -> 0
    [x, ..rest] -> x + total(rest)
  }
}

fn len(xs: List<a>) -> Int {
  when xs is {
    [] -> 0
    [_, ..rest] -> 1 + len(rest)
  }
}

fn last_or_zero(xs: List<Int>) -> Int {
  when xs is {
    [] -> 0
    [x] -> x
    [_, ..rest] -> last_or_zero(rest)
  }
}
"#;

fn expectation(rng: &mut Rng) -> &'static str {
    match rng.below(4) {
        0 => " fail",
        1 => " fail once",
        _ => "",
    }
}

pub fn gen_props(rng: &mut Rng, n: usize) -> Vec<PropDef> {
    let mut out = vec![];
    for i in 0..n {
        let e = expectation(rng);
        let k = rng.range(1, 254);
        let long = rng.chance(1, 40);
        let heavy = !long && rng.chance(1, 40);
        let (shape, src) = match if long { 14 } else if heavy { 15 } else { rng.below(14) } {
            0 => (
                "monotone-byte",
                format!("test p{i}(x via fuzz.byte()){e} {{\n  x < {k}\n}}\n"),
            ),
            1 => {
                let a = rng.range(1, 200);
                let b = a + rng.range(1, 50);
                (
                    "non-monotone-mid-range",
                    format!("test p{i}(x via fuzz.byte()){e} {{\n  x < {a} || x > {b}\n}}\n"),
                )
            }
            2 => (
                "sum-of-length-first-list",
                format!(
                    "test p{i}(xs via fuzz.list_len_first(fuzz.below(10))){e} {{\n  total(xs) <= {}\n}}\n",
                    rng.range(0, 40)
                ),
            ),
            3 => (
                "length-of-coin-list",
                format!(
                    "test p{i}(xs via fuzz.list_coin(fuzz.byte())){e} {{\n  len(xs) < {}\n}}\n",
                    rng.range(1, 5)
                ),
            ),
            4 => (
                "always-true",
                format!("test p{i}(x via fuzz.below(7)){e} {{\n  x < 7\n}}\n"),
            ),
            5 => (
                "constant-fuzzer-always-false",
                format!("test p{i}(x via fuzz.constant(1)){e} {{\n  x == 0\n}}\n"),
            ),
            6 => (
                "pair-with-labels",
                format!(
                    "test p{i}(p via fuzz.pair(fuzz.byte(), fuzz.bool())){e} {{\n  let (x, flag) = p\n  fuzz.label(\n    if flag {{\n      @\"even\"\n    }} else {{\n      @\"odd\"\n    }},\n  )\n  x < {k} || flag\n}}\n"
                ),
            ),
            7 => (
                "trailing-unused-choice",
                format!("test p{i}(x via fuzz.wasteful()){e} {{\n  x < {k}\n}}\n"),
            ),
            8 => (
                "fuzzer-errors-for-some-draws",
                format!("test p{i}(x via fuzz.fragile()){e} {{\n  x < {}\n}}\n", 200 + rng.range(0, 100)),
            ),
            9 => (
                "dependent-draw",
                format!(
                    "test p{i}(x via fuzz.dependent()){e} {{\n  x < {}\n}}\n",
                    rng.range(1, 120)
                ),
            ),
            10 => (
                "sum-of-coin-list",
                format!(
                    "test p{i}(xs via fuzz.list_coin(fuzz.below(50))){e} {{\n  total(xs) < {}\n}}\n",
                    rng.range(1, 90)
                ),
            ),
            11 => (
                "nested-list",
                format!(
                    "test p{i}(xss via fuzz.list_len_first(fuzz.list_coin(fuzz.below(9)))){e} {{\n  len(xss) < {}\n}}\n",
                    rng.range(1, 5)
                ),
            ),
            12 => (
                "property-aborts",
                format!(
                    "test p{i}(x via fuzz.byte()){e} {{\n  expect x < {k}\n  True\n}}\n"
                ),
            ),
            // more than 64 choices per case: the shrinker's cache and passes work on long keys
            14 => {
                let n = rng.range(66, 72);
                (
                    "long-list-last-element",
                    format!("test p{i}(xs via fuzz.list_n(fuzz.byte(), {n})){e} {{\n  last_or_zero(xs) < {k}\n}}\n"),
                )
            }
            15 => (
                "heavy-fuzzer",
                format!("test p{i}(x via fuzz.heavy()){e} {{\n  x < {k}\n}}\n"),
            ),
            _ => (
                "always-false",
                format!("test p{i}(x via fuzz.byte()){e} {{\n  x > 300\n}}\n"),
            ),
        };
        out.push(PropDef {
            name: format!("p{i}"),
            source: src,
            shape: format!("{shape}{}", e.replace(' ', "-")),
        });
    }
    out
}

pub fn props_project(props: &[PropDef]) -> ProjSpec {
    let mut module = String::from("use fuzz\n");
    module.push_str(HELPERS);
    module.push('\n');
    for p in props {
        module.push_str(&p.source);
        module.push('\n');
    }
    ProjSpec {
        id: "props".into(),
        toml: "name = \"sim/props\"\nversion = \"0.0.0\"\nplutus = \"v3\"\n".into(),
        files: vec![
            ("lib/fuzz.ak".into(), FUZZ_LIB.into()),
            ("lib/props.ak".into(), module),
        ],
    }
}

/// Every test of every module of the project.
pub fn compile_all_tests(root: &Path, opts: &Opts) -> Result<Vec<Test>, String> {
    compile_tests_where(root, opts, |_| true)
}

/// Compile the project's tests the way `collect_test_items` does (one shared generator).
pub fn compile_tests(root: &Path, opts: &Opts) -> Result<Vec<Test>, String> {
    compile_tests_where(root, opts, |m| m == "props")
}

fn compile_tests_where(root: &Path, opts: &Opts, keep: impl Fn(&str) -> bool) -> Result<Vec<Test>, String> {
    let (mut project, _cap) = new_project(root)?;
    let res = project.check(
        true,
        None,
        false,
        false,
        0,
        1,
        aiken_project::telemetry::CoverageMode::default(),
        opts.tracing(),
        false,
        None,
    );
    if let Err(errs) = res {
        return Err(format!(
            "generated properties do not type-check: {}",
            errs.iter().map(|e| format!("{e:?}")).collect::<Vec<_>>().join("\n")
        ));
    }
    let mut modules = project.modules();
    modules.sort_by(|a, b| a.name.cmp(&b.name));
    let mut generator = project.new_generator(opts.tracing());
    let mut tests = vec![];
    for m in &modules {
        if !keep(&m.name) || m.package.is_empty() {
            continue;
        }
        for def in m.ast.definitions() {
            if let Definition::Test(t) = def {
                tests.push(Test::from_function_definition(
                    &mut generator,
                    t.to_owned(),
                    m.name.clone(),
                    m.input_path.clone(),
                    RunnableKind::Test,
                ));
            }
        }
    }
    Ok(tests)
}

#[derive(Clone, Debug, PartialEq)]
pub struct RefOutcome {
    /// (iteration, choices, value) of the first kept case
    pub found: Option<(usize, Vec<u8>, PlutusData)>,
    pub fuzzer_error_at: Option<usize>,
    pub iterations: usize,
    pub labels: BTreeMap<String, usize>,
    pub evals: usize,
}

fn keep(on: &OnTestFailure, failed: bool) -> bool {
    match on {
        OnTestFailure::FailImmediately | OnTestFailure::SucceedImmediately => failed,
        OnTestFailure::SucceedEventually => !failed,
    }
}

/// The property's meaning with no shrinking machinery at all.
pub fn reference_run(
    test: &PropertyTest,
    seed: u32,
    n: usize,
    pv: &PlutusVersion,
) -> Result<RefOutcome, String> {
    let mut prng = Prng::from_seed(seed);
    let mut labels = BTreeMap::new();
    let mut evals = 0;
    for i in 1..=n {
        match prng.sample(&test.fuzzer.program) {
            Err(_) => {
                return Ok(RefOutcome {
                    found: None,
                    fuzzer_error_at: Some(i),
                    iterations: i,
                    labels,
                    evals,
                });
            }
            Ok(None) => return Err("seeded fuzzer returned None (harness fuzzer ill-formed)".into()),
            Ok(Some((next, value))) => {
                let r = test.eval(&value, pv);
                evals += 1;
                for l in r.labels() {
                    *labels.entry(l).or_insert(0) += 1;
                }
                let failed = r.failed(true, &pv.into());
                if keep(&test.on_test_failure, failed) {
                    return Ok(RefOutcome {
                        found: Some((i, next.choices(), value)),
                        fuzzer_error_at: None,
                        iterations: i,
                        labels,
                        evals,
                    });
                }
                prng = next;
            }
        }
    }
    Ok(RefOutcome {
        found: None,
        fuzzer_error_at: None,
        iterations: n,
        labels,
        evals,
    })
}

fn shortlex_le(a: &[u8], b: &[u8]) -> bool {
    (a.len(), a) <= (b.len(), b)
}

#[derive(Clone, Debug, Serialize, Deserialize, PartialEq)]
pub struct PropCase {
    pub props: Vec<PropDef>,
    pub index: usize,
    pub seed: u32,
    pub n: usize,
    /// Other (test index, seed) pairs run on the same thread before this one (context).
    pub before: Vec<(usize, u32)>,
    pub opts: Opts,
}

#[derive(Clone, Debug, PartialEq, Serialize, Deserialize)]
pub struct RunSummary {
    pub success: bool,
    pub iterations: usize,
    pub labels: Vec<(String, usize)>,
    pub counterexample: Option<String>,
    pub error: Option<String>,
    pub logs: Vec<String>,
}

fn summarise(r: &aiken_lang::test_framework::PropertyTestResult<PlutusData>) -> RunSummary {
    let success = match (&r.counterexample, &r.test.on_test_failure) {
        (Err(_), _) => false,
        (Ok(c), OnTestFailure::FailImmediately | OnTestFailure::SucceedEventually) => c.is_none(),
        (Ok(c), OnTestFailure::SucceedImmediately) => c.is_some(),
    };
    RunSummary {
        success,
        iterations: r.iterations,
        labels: r.labels.iter().map(|(k, v)| (k.clone(), *v)).collect(),
        counterexample: match &r.counterexample {
            Ok(Some(d)) => Some(uplc::ast::Data::to_hex(d.clone())),
            _ => None,
        },
        error: match &r.counterexample {
            Err(e) => Some(short(&format!("{e}"), 200)),
            _ => None,
        },
        logs: r.logs.clone(),
    }
}

pub struct CaseOutcome {
    pub violations: Vec<(String, String)>,
    pub summary: Option<RunSummary>,
    pub found: bool,
    pub shrunk_from: usize,
    pub shrunk_to: usize,
    pub evals: usize,
    pub replay_consistent: bool,
}

/// All invariants for one (property, seed) on the current thread, given compiled tests.
pub fn check_case(tests: &[Test], case: &PropCase) -> Result<CaseOutcome, String> {
    let pv = PlutusVersion::default();
    let mut out = CaseOutcome {
        violations: vec![],
        summary: None,
        found: false,
        shrunk_from: 0,
        shrunk_to: 0,
        evals: 0,
        replay_consistent: true,
    };
    let get = |i: usize| -> Result<&PropertyTest, String> {
        match tests.get(i) {
            Some(Test::PropertyTest(p)) => Ok(p),
            _ => Err(format!("test {i} is not a property test")),
        }
    };
    // Context: other tests first, on this thread.
    for (i, seed) in &case.before {
        if let Ok(p) = get(*i) {
            let _ = p.clone().run(*seed, case.n, &pv);
        }
    }
    let test = get(case.index)?;
    let name = &case.props[case.index].name;
    let shape = &case.props[case.index].shape;
    let reference = reference_run(test, case.seed, case.n, &pv)?;
    out.evals += reference.evals;
    // The framework under test.
    let result = test.clone().run(case.seed, case.n, &pv);
    let summary = summarise(&result);
    let mut v = |class: &str, detail: String| {
        out.violations.push((
            class.to_string(),
            format!("property {name} ({shape}) seed {} n {}: {detail}", case.seed, case.n),
        ));
    };
    // (a) found / iterations / labels equal the reference
    match (&reference.fuzzer_error_at, &result.counterexample) {
        (Some(i), Err(_)) => {
            if result.iterations != *i {
                v(
                    "iterations",
                    format!("fuzzer errors at iteration {i} but the framework reports {} iterations", result.iterations),
                );
            }
        }
        (Some(i), Ok(_)) => v(
            "lost-fuzzer-error",
            format!("the fuzzer errors at iteration {i} but the framework reports {:?}", summary),
        ),
        (None, Err(e)) => v(
            "spurious-fuzzer-error",
            format!("the framework reports a fuzzer error ({e}) the reference loop never meets"),
        ),
        (None, Ok(cex)) => {
            match (&reference.found, cex) {
                (Some((i, _, _)), Some(_)) => {
                    if result.iterations != *i {
                        v(
                            "iterations",
                            format!("first kept case is iteration {i}, the framework reports {}", result.iterations),
                        );
                    }
                }
                (None, None) => {
                    if result.iterations != case.n {
                        v(
                            "iterations",
                            format!("no case kept in {} runs, the framework reports {} iterations", case.n, result.iterations),
                        );
                    }
                }
                (Some((i, choices, _)), None) => v(
                    "lost-failure",
                    format!("iteration {i} (choices {choices:?}) must be reported but the framework reports none"),
                ),
                (None, Some(d)) => v(
                    "spurious-counterexample",
                    format!("no run of the reference loop is kept, the framework reports {}", uplc::ast::Data::to_hex(d.clone())),
                ),
            }
            if result.labels != reference.labels {
                v(
                    "labels",
                    format!("labels {:?}, the reference loop saw {:?}", result.labels, reference.labels),
                );
            }
        }
    }
    // (b) verdict matrix, stated independently: default passes iff nothing failed; `fail` passes
    // iff nothing passed; `fail once` passes iff something failed.
    if reference.fuzzer_error_at.is_none() {
        let expected = match test.on_test_failure {
            OnTestFailure::FailImmediately => reference.found.is_none(),
            OnTestFailure::SucceedEventually => reference.found.is_none(),
            OnTestFailure::SucceedImmediately => reference.found.is_some(),
        };
        let actual = aiken_lang::test_framework::TestResult::<(), PlutusData>::PropertyTestResult(
            result.clone(),
        )
        .is_success();
        if actual != expected {
            v(
                "verdict",
                format!("expectation {:?}: verdict must be {expected} but is_success() = {actual}", test.on_test_failure),
            );
        }
    } else if aiken_lang::test_framework::TestResult::<(), PlutusData>::PropertyTestResult(result.clone())
        .is_success()
    {
        v("verdict", "a run whose fuzzer errored is reported as a success".into());
    }
    // (c)–(e) on the counterexample object itself
    if let (Some((_, first_choices, first_value)), Ok(Some(value))) =
        (&reference.found, &result.counterexample)
    {
        out.found = true;
        // (c) real
        let r = test.eval(value, &pv);
        out.evals += 1;
        if !keep(&test.on_test_failure, r.failed(true, &(&pv).into())) {
            v(
                "unreal-counterexample",
                format!(
                    "reported counterexample {} does not {} the property when re-applied",
                    uplc::ast::Data::to_hex(value.clone()),
                    if matches!(test.on_test_failure, OnTestFailure::SucceedEventually) { "satisfy" } else { "falsify" }
                ),
            );
        }
        // precondition for (d): the fuzzer is replay-consistent on the unshrunk case
        let consistent = matches!(
            Prng::from_choices(first_choices).sample(&test.fuzzer.program),
            Ok(Some((_, ref v0))) if v0 == first_value
        );
        out.replay_consistent = consistent;
        if !consistent {
            // generation under a seed and replay of the recorded choices are the same pure
            // function of the choice sequence: every later step (shrinking, reporting) rests on it
            v(
                "first-case-not-replayable",
                format!(
                    "the first failing case {} was generated from choices {:?}, but replaying those choices does not regenerate it",
                    uplc::ast::Data::to_hex(first_value.clone()),
                    first_choices
                ),
            );
        }
        // choices of the shrunk counterexample: run_n_times exposes them
        let mut remaining = case.n;
        let mut labels = BTreeMap::new();
        match test.run_n_times(&mut remaining, Prng::from_seed(case.seed), &mut labels, &pv) {
            Ok(Some(cex)) => {
                out.shrunk_from = first_choices.len();
                out.shrunk_to = cex.choices.len();
                if &cex.value != value {
                    v(
                        "unstable-counterexample",
                        format!(
                            "run() reports {} but run_n_times() with the same seed reports {}",
                            uplc::ast::Data::to_hex(value.clone()),
                            uplc::ast::Data::to_hex(cex.value.clone())
                        ),
                    );
                }
                // (d) replayable
                {
                    match Prng::from_choices(&cex.choices).sample(&test.fuzzer.program) {
                        Ok(Some((_, replayed))) if replayed == cex.value => {}
                        other => v(
                            "not-replayable",
                            format!(
                                "replaying the recorded choices {:?} yields {} but the counterexample is {}",
                                cex.choices,
                                match other {
                                    Ok(Some((_, d))) => uplc::ast::Data::to_hex(d),
                                    Ok(None) => "None".into(),
                                    Err(e) => format!("error {e}"),
                                },
                                uplc::ast::Data::to_hex(cex.value.clone())
                            ),
                        ),
                    }
                }
                // (e) no larger
                if !shortlex_le(&cex.choices, first_choices) {
                    v(
                        "larger-counterexample",
                        format!(
                            "final choices {:?} are larger (shortlex) than the first failing choices {:?}",
                            cex.choices, first_choices
                        ),
                    );
                }
            }
            Ok(None) => v(
                "unstable-counterexample",
                "run() found a counterexample, run_n_times() with the same seed found none".into(),
            ),
            Err(e) => v(
                "unstable-counterexample",
                format!("run() found a counterexample, run_n_times() errored: {e}"),
            ),
        }
    }
    // (f) reproducible on the same thread
    let again = summarise(&test.clone().run(case.seed, case.n, &pv));
    if again != summary {
        v(
            "not-reproducible",
            format!("two runs with the same seed on the same thread differ: {summary:?} vs {again:?}"),
        );
    }
    out.summary = Some(summary);
    Ok(out)
}

/// Compile + check one case inside a pool thread under `epoch`.
pub fn execute_case(case: &PropCase, epoch: u64) -> Result<CaseOutcome, String> {
    let spec = props_project(&case.props);
    let case = case.clone();
    hashseed::set_epoch(epoch | 1);
    let r = with_pool(1, move || {
        let disk = RunDisk::new();
        disk.materialize(&spec, &identity_order(&spec));
        let tests = compile_tests(&disk.root, &case.opts)?;
        check_case(&tests, &case).map(|o| {
            (
                o.violations,
                o.summary,
                o.found,
                o.shrunk_from,
                o.shrunk_to,
                o.evals,
                o.replay_consistent,
            )
        })
    });
    hashseed::clear_epoch();
    r.map(|(violations, summary, found, shrunk_from, shrunk_to, evals, replay_consistent)| CaseOutcome {
        violations,
        summary,
        found,
        shrunk_from,
        shrunk_to,
        evals,
        replay_consistent,
    })
}

// ------------------------------------------------------------------------------------------
// Cache model check

#[derive(Clone, Debug, Serialize, Deserialize, PartialEq)]
pub struct CacheCase {
    pub k: u8,
    pub threshold: u32,
    /// the first choice must be below this (how many more choices are read); long keys matter:
    /// a cache that only distinguishes a bounded prefix of the key is wrong only beyond it
    #[serde(default = "six")]
    pub n_max: u8,
    pub lookups: Vec<Vec<u8>>,
}

fn six() -> u8 {
    6
}

/// Model fuzzer + property: first choice n (< 6) says how many more are read (each < k); the
/// property fails when their sum exceeds the threshold. Trailing choices are never looked at.
fn model(k: u8, threshold: u32, n_max: u8, choices: &[u8]) -> Status<Vec<u8>> {
    let Some(n) = choices.first().copied() else {
        return Status::Invalid;
    };
    if n >= n_max {
        return Status::Invalid;
    }
    let n = n as usize;
    if choices.len() < 1 + n {
        return Status::Invalid;
    }
    let xs = &choices[1..1 + n];
    if xs.iter().any(|x| *x >= k) {
        return Status::Invalid;
    }
    let sum: u32 = xs.iter().map(|x| *x as u32).sum();
    if sum > threshold {
        Status::Keep(xs.to_vec())
    } else {
        Status::Ignore
    }
}

fn gen_cache_case(rng: &mut Rng) -> CacheCase {
    let k = 2 + rng.below(40) as u8;
    let n_max: u8 = *rng.pick(&[6u8, 6, 40, 100, 200]);
    let threshold = if n_max == 6 { rng.below(60) as u32 } else { rng.below(n_max as u64 * k as u64 / 3 + 1) as u32 };
    let mut current: Vec<u8> = {
        let n = if n_max == 6 { rng.below(6) as u8 } else { (n_max as u64 / 2 + rng.below(n_max as u64 / 2)) as u8 };
        let mut v = vec![n];
        for _ in 0..n {
            v.push(rng.below(k as u64) as u8);
        }
        for _ in 0..rng.below(3) {
            v.push(rng.below(256) as u8);
        }
        v
    };
    let mut lookups = vec![current.clone()];
    let n_lookups = 20 + rng.usize_below(120);
    for _ in 0..n_lookups {
        let mut c = current.clone();
        match rng.below(8) {
            0 if !c.is_empty() => {
                let i = rng.usize_below(c.len());
                let l = 1 + rng.usize_below(3.min(c.len() - i));
                c.drain(i..i + l);
            }
            1 if !c.is_empty() => {
                let i = rng.usize_below(c.len());
                c[i] = 0;
            }
            2 if !c.is_empty() => {
                let i = rng.usize_below(c.len());
                c[i] = c[i].saturating_sub(1 + rng.below(3) as u8);
            }
            3 => c.push(rng.below(256) as u8),
            4 if !c.is_empty() => {
                c.truncate(rng.usize_below(c.len()));
            }
            5 if c.len() > 1 => {
                let i = rng.usize_below(c.len() - 1);
                c.swap(i, i + 1);
            }
            6 if !c.is_empty() => {
                let i = rng.usize_below(c.len());
                c[i] = rng.below(k as u64 + 2) as u8;
            }
            _ => {}
        }
        lookups.push(c.clone());
        // Follow accepted improvements the way `consider` does.
        if let Status::Keep(_) = model(k, threshold, n_max, &c) {
            if shortlex_le(&c, &current) {
                current = c;
            }
        }
        // Revisit an old key now and then.
        if rng.chance(1, 5) {
            let j = rng.usize_below(lookups.len());
            let again = lookups[j].clone();
            lookups.push(again);
        }
    }
    CacheCase {
        k,
        threshold,
        n_max,
        lookups,
    }
}

/// Returns (mismatches, underlying runs).
fn execute_cache_case(case: &CacheCase) -> (Vec<String>, usize, usize) {
    let runs = Cell::new(0usize);
    let k = case.k;
    let t = case.threshold;
    let n_max = case.n_max;
    let mut cache: Cache<'_, Vec<u8>> = Cache::new(|choices: &[u8]| {
        runs.set(runs.get() + 1);
        model(k, t, n_max, choices)
    });
    let mut mismatches = vec![];
    for (i, l) in case.lookups.iter().enumerate() {
        let got = cache.get(l);
        let want = model(k, t, n_max, l);
        if got != want {
            mismatches.push(format!(
                "lookup #{i} {l:?}: cache answers {got:?}, the uncached function answers {want:?}"
            ));
            if mismatches.len() > 3 {
                break;
            }
        }
    }
    let size = cache.size();
    drop(cache);
    (mismatches, runs.get(), size)
}

// ------------------------------------------------------------------------------------------

fn report(ctx: &mut RunCtx, case: &PropCase, epoch: u64, violations: &[(String, String)]) {
    let mut seen = std::collections::BTreeSet::new();
    for (class, detail) in violations {
        if !seen.insert(class.clone()) {
            continue;
        }
        let shape = &case.props[case.index].shape;
        ctx.violation(
            PROP,
            class,
            format!("{class}|{shape}"),
            format!("{detail}\nsource:\n{}", case.props[case.index].source),
            json!({ "case": case, "epoch": epoch }),
        );
    }
}

/// Keep only the property under test (and drop the context) while the violation persists.
fn minimise(case: &PropCase, epoch: u64, classes: &[String]) -> PropCase {
    let still = |c: &PropCase| {
        execute_case(c, epoch)
            .map(|o| o.violations.iter().any(|(cl, _)| classes.contains(cl)))
            .unwrap_or(false)
    };
    let mut best = case.clone();
    if !best.before.is_empty() {
        let mut c = best.clone();
        c.before.clear();
        if still(&c) {
            best = c;
        }
    }
    if best.props.len() > 1 && best.before.is_empty() {
        let mut c = best.clone();
        c.props = vec![best.props[best.index].clone()];
        c.index = 0;
        if still(&c) {
            best = c;
        }
    }
    // smaller n
    for n in [1usize, 2, 5, 10] {
        if n < best.n {
            let mut c = best.clone();
            c.n = n;
            if still(&c) {
                best = c;
                break;
            }
        }
    }
    best
}

impl Engine for PropEngine {
    fn property(&self) -> &'static str {
        PROP
    }
    fn name(&self) -> &'static str {
        "sim-proptest"
    }
    fn engine_id(&self) -> u64 {
        16
    }
    fn runs(&self, tier: Tier) -> u64 {
        match tier {
            Tier::Quick => 400,
            Tier::Thorough => 12000,
        }
    }
    fn selfcheck_runs(&self, tier: Tier) -> u64 {
        match tier {
            Tier::Quick => 16,
            Tier::Thorough => 64,
        }
    }

    fn run(&self, ctx: &mut RunCtx) {
        // One run in five checks the memo table against its model.
        if ctx.k % 5 == 4 {
            let n_cases = 20;
            for _ in 0..n_cases {
                let case = gen_cache_case(&mut ctx.rng);
                let (mismatches, runs, size) = execute_cache_case(&case);
                ctx.stats.inc("cache_lookups", case.lookups.len() as u64);
                ctx.stats.inc("cache_underlying_runs", runs as u64);
                ctx.stats.inc("evaluations", case.lookups.len() as u64);
                ctx.stats.max("max_cache_size", size as u64);
                ctx.logical_steps += case.lookups.len() as u64;
                ctx.stats
                    .add("cases", hash_str(&format!("cache{:?}", case)));
                ctx.event(&format!("cache k={} t={} lookups={} runs={runs} mismatches={}", case.k, case.threshold, case.lookups.len(), mismatches.len()));
                if let Some(first) = mismatches.first() {
                    // minimise: shortest prefix of the lookup sequence that still mismatches
                    let mut best = case.clone();
                    for n in 1..=case.lookups.len() {
                        let c = CacheCase {
                            lookups: case.lookups[..n].to_vec(),
                            ..case.clone()
                        };
                        if !execute_cache_case(&c).0.is_empty() {
                            best = c;
                            break;
                        }
                    }
                    // drop lookups that are not needed
                    let mut i = 0;
                    while best.lookups.len() > 1 && i + 1 < best.lookups.len() {
                        let mut c = best.clone();
                        c.lookups.remove(i);
                        if !execute_cache_case(&c).0.is_empty() {
                            best = c;
                        } else {
                            i += 1;
                        }
                    }
                    let detail = execute_cache_case(&best).0.first().cloned().unwrap_or(first.clone());
                    ctx.violation(
                        PROP,
                        "cache-model",
                        "cache-model|stale-or-wrong-answer".into(),
                        format!(
                            "memo table vs uncached function (model fuzzer: first choice n<6 then n choices < {}, fails when their sum > {}): {detail}; lookup history {:?}",
                            best.k, best.threshold, best.lookups
                        ),
                        json!({ "cache_case": best }),
                    );
                }
            }
            return;
        }
        let n_props = 4 + ctx.rng.usize_below(5);
        let props = gen_props(&mut ctx.rng, n_props);
        let mut opts = Opts::default_check();
        opts.trace_level = ctx.rng.below(3) as u8;
        opts.trace_scope = 2;
        let epoch = ctx.rng.next_u64() | 1;
        let other_epoch = ctx.rng.next_u64() | 1;
        let n_cases = 2 + ctx.rng.usize_below(3);
        for _ in 0..n_cases {
            let index = ctx.rng.usize_below(props.len());
            let n = match ctx.rng.below(4) {
                0 => 1 + ctx.rng.usize_below(5),
                1 => 100,
                _ => 10 + ctx.rng.usize_below(50),
            };
            let before: Vec<(usize, u32)> = (0..ctx.rng.usize_below(3))
                .map(|_| (ctx.rng.usize_below(props.len()), ctx.rng.below(1 << 20) as u32))
                .collect();
            let case = PropCase {
                props: props.clone(),
                index,
                seed: match ctx.rng.below(5) {
                    0 => 0,
                    1 => u32::MAX,
                    2 => 42,
                    _ => ctx.rng.next_u64() as u32,
                },
                n,
                before,
                opts: opts.clone(),
            };
            ctx.event(&format!(
                "case {} {} seed={} n={} before={:?}",
                case.props[index].shape, case.props[index].name, case.seed, case.n, case.before
            ));
            let outcome = match guard(|| execute_case(&case, epoch)) {
                Ok(Ok(o)) => o,
                Ok(Err(e)) => {
                    ctx.harness_error(format!("{e}\n{}", case.props[index].source));
                    return;
                }
                Err(p) => {
                    ctx.violation(
                        PROP,
                        "panic",
                        format!("panic@{}|{}", p.site(), case.props[index].shape),
                        format!(
                            "running property {} ({}) seed {} panicked: {} @ {}\nsource:\n{}",
                            case.props[index].name, case.props[index].shape, case.seed, p.message, p.location, case.props[index].source
                        ),
                        json!({ "case": case, "epoch": epoch }),
                    );
                    continue;
                }
            };
            ctx.stats.inc("evaluations", outcome.evals as u64 + 2);
            ctx.logical_steps += outcome.evals as u64;
            ctx.stats.inc("cases_property", 1);
            ctx.stats
                .inc(&format!("shape_{}", case.props[index].shape.split("-fail").next().unwrap_or("")), 1);
            if outcome.found {
                ctx.stats.inc("counterexamples", 1);
                ctx.stats.inc("choices_before_shrinking", outcome.shrunk_from as u64);
                ctx.stats.inc("choices_after_shrinking", outcome.shrunk_to as u64);
                if outcome.shrunk_to < outcome.shrunk_from {
                    ctx.stats.inc("counterexamples_actually_shrunk", 1);
                }
            }
            if !outcome.replay_consistent {
                ctx.stats.inc("fuzzer_not_replay_consistent_precondition", 1);
            }
            if let Some(s) = &outcome.summary {
                if s.error.is_some() {
                    ctx.stats.inc("fuzzer_error_path_fired", 1);
                }
                if !s.labels.is_empty() {
                    ctx.stats.inc("runs_with_labels", 1);
                }
                ctx.stats.add(
                    "cases",
                    hash_str(&format!("{}{}{}{:?}", case.props[index].source, case.seed, case.n, case.before)),
                );
                ctx.event(&format!("summary {s:?}"));
            }
            let mut violations = outcome.violations.clone();
            // (f) reproducible in another context: other hash epoch, other thread, no context
            // tests before it.
            let mut alone = case.clone();
            alone.before.clear();
            match guard(|| execute_case(&alone, other_epoch)) {
                Ok(Ok(o2)) => {
                    ctx.stats.inc("context_reruns", 1);
                    if o2.summary != outcome.summary {
                        violations.push((
                            "context-dependent".into(),
                            format!(
                                "property {} ({}) seed {} n {}: result depends on the context: after {:?} under hash epoch {:x}: {:?}; alone on a fresh thread under epoch {:x}: {:?}",
                                case.props[index].name, case.props[index].shape, case.seed, case.n, case.before, epoch, outcome.summary, other_epoch, o2.summary
                            ),
                        ));
                    }
                }
                Ok(Err(e)) => ctx.harness_error(e),
                Err(p) => violations.push((
                    "context-dependent".into(),
                    format!("re-running alone panicked: {} @ {}", p.message, p.location),
                )),
            }
            if !violations.is_empty() {
                let classes: Vec<String> = violations.iter().map(|(c, _)| c.clone()).collect();
                let min = if classes.iter().any(|c| c == "context-dependent") {
                    case.clone()
                } else {
                    minimise(&case, epoch, &classes)
                };
                if min != case {
                    if let Ok(o) = execute_case(&min, epoch) {
                        if !o.violations.is_empty() {
                            report(ctx, &min, epoch, &o.violations);
                            continue;
                        }
                    }
                }
                report(ctx, &case, epoch, &violations);
            }
            if ctx.k % 29 == 0 {
                ctx.stats.sample(json!({
                    "property": case.props[index].source,
                    "shape": case.props[index].shape,
                    "seed": case.seed,
                    "n": case.n,
                    "context_before": case.before,
                    "result": outcome.summary,
                    "choices_first_failing": outcome.shrunk_from,
                    "choices_after_shrinking": outcome.shrunk_to,
                }));
            }
        }
    }

    fn replay(&self, trace: &Value, ctx: &mut RunCtx) {
        if let Some(cc) = trace
            .get("cache_case")
            .and_then(|c| serde_json::from_value::<CacheCase>(c.clone()).ok())
        {
            let (mismatches, _, _) = execute_cache_case(&cc);
            if let Some(m) = mismatches.first() {
                ctx.violation(
                    PROP,
                    "cache-model",
                    "cache-model|stale-or-wrong-answer".into(),
                    m.clone(),
                    trace.clone(),
                );
            }
            return;
        }
        let Some(case) = trace
            .get("case")
            .and_then(|c| serde_json::from_value::<PropCase>(c.clone()).ok())
        else {
            ctx.harness_error("replay: no case".into());
            return;
        };
        let epoch = ju64(trace, "epoch");
        match guard(|| execute_case(&case, epoch)) {
            Ok(Ok(o)) => {
                let mut violations = o.violations.clone();
                let mut alone = case.clone();
                alone.before.clear();
                if let Ok(Ok(o2)) = guard(|| execute_case(&alone, epoch ^ 0x5555_0000)) {
                    if o2.summary != o.summary {
                        violations.push((
                            "context-dependent".into(),
                            format!("result depends on the context: {:?} vs {:?}", o.summary, o2.summary),
                        ));
                    }
                }
                report(ctx, &case, epoch, &violations);
            }
            Ok(Err(e)) => ctx.harness_error(e),
            Err(p) => ctx.violation(
                PROP,
                "panic",
                format!("panic@{}|{}", p.site(), case.props[case.index].shape),
                format!("panicked: {} @ {}", p.message, p.location),
                trace.clone(),
            ),
        }
    }

    fn evidence(&self, stats: &Stats, _tier: Tier) -> EvidenceParts {
        let shapes: BTreeMap<String, u64> = stats
            .counters
            .iter()
            .filter(|(k, _)| k.starts_with("shape_"))
            .map(|(k, v)| (k.trim_start_matches("shape_").to_string(), *v))
            .collect();
        EvidenceParts {
            level: "exploration",
            evaluations: stats.get("evaluations"),
            distinct_nontrivial: stats.distinct("cases"),
            rule: "4 runs in 5: a module of 4-8 generated properties (14 fuzzer/property shapes × default / fail / fail once) is compiled by the real tool-chain; 2-4 (property, seed, n, context) cases are checked against the shrink-free reference loop (found/iterations/labels/verdict), the counterexample is re-applied, replayed from its choices, compared shortlex with the first failing case, re-run on the same thread and re-run alone under another hash epoch on another thread. 1 run in 5: 20 seeded lookup histories (delete, zero, decrement, extend, truncate, swap, revisit) against `Cache` over a model fuzzer with data-dependent consumption, each answer compared with the uncached function. distinct = distinct (property source, seed, n, context) or lookup history; non-trivial = all (every case executes the framework)".into(),
            extra: json!({
                "fuzzer_and_property_shapes": shapes,
                "fault_kinds_fired": {
                    "fuzzer_error_path": stats.get("fuzzer_error_path_fired"),
                    "counterexamples_found": stats.get("counterexamples"),
                    "counterexamples_actually_shrunk": stats.get("counterexamples_actually_shrunk"),
                    "choices_before_shrinking_total": stats.get("choices_before_shrinking"),
                    "choices_after_shrinking_total": stats.get("choices_after_shrinking"),
                    "context_reruns_other_epoch_other_thread": stats.get("context_reruns"),
                    "runs_with_labels": stats.get("runs_with_labels"),
                    "replay_consistency_precondition_failed": stats.get("fuzzer_not_replay_consistent_precondition"),
                },
                "cache_model": {
                    "lookups": stats.get("cache_lookups"),
                    "underlying_runs": stats.get("cache_underlying_runs"),
                    "max_cache_size": stats.get("max_cache_size"),
                },
                "components": {
                    "real": ["aiken-lang test_framework (PropertyTest::run/run_n_times/eval, Prng, Counterexample::simplify, Cache)", "Aiken compiler (fuzzers and properties are compiled from source)", "uplc CEK"],
                    "simulated": ["seed", "context a test runs in (other tests before it, thread, hash epoch)", "fuzzer shapes acting as fault injectors (None on replay, data-dependent consumption, unused choices, erroring fuzzer)", "lookup history of the memo table"],
                    "stubbed": ["the cache model check uses a pure-Rust model fuzzer in place of the CEK-evaluated one"]
                }
            }),
            assumptions: vec![
                "replayability (d) is required only when the fuzzer is replay-consistent on the unshrunk case; soundness (c) unconditionally".into(),
                "the fuzz library is the harness's own (the standard library cannot be fetched offline)".into(),
            ],
        }
    }

    fn hang_bound(&self, _tier: Tier) -> std::time::Duration {
        std::time::Duration::from_secs(300)
    }
}
