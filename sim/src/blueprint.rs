//! C18 `sim-blueprint`: applying a parameter means applying the function.
//!
//! A statement about histories of operations on a durable object (`plutus.json`), with rejected
//! operations and reloads in between: the store-versus-model shape.
//!
//! Real code: the compiler (generated parameterised validators), `Project::build`,
//! `Project::blueprint` (file → `Blueprint`), `Blueprint::{apply_parameter, with_validator}`,
//! `Validator::apply`, `Parameter::validate`, `SerializableProgram` (de)serialisation,
//! `Project::{address, policy}`, `uplc::tx::apply_params_to_script`, the CEK machine.
//!
//! Reference model (trivial inside): per validator `{ original program, applied: Vec<Data>,
//! remaining: Vec<schema> }`; code is `[(…[(original d₁)]…) dₖ]`; hash is blake2b-224 of
//! `version tag ‖ cbor(code)` computed here from the *published* `compiledCode` hex.

use crate::common::*;
use crate::driver::{Engine, EvidenceParts};
use crate::genproj::DataModule;
use crate::hashseed;
use crate::project::*;
use crate::rng::Rng;
use aiken_project::Project;
use cryptoxide::{blake2b::Blake2b, digest::Digest};
use num_bigint::BigInt;
use pallas_codec::utils::MaybeIndefArray;
use pallas_primitives::alonzo::{Constr, PlutusData};
use serde::{Deserialize, Serialize};
use serde_json::{Value, json};
use std::collections::BTreeMap;
use std::path::Path;
use std::rc::Rc;
use uplc::ast::{Constant, DeBruijn, NamedDeBruijn, Program, Term};
use uplc::machine::cost_model::ExBudget;

pub struct BlueprintEngine;

const PROP: &str = "C18";

// ------------------------------------------------------------------------------------------
// Generated parameterised validators

const TYPES_MODULE: &str = r#"use aiken/builtin

pub type Item {
  Plain
  Tagged { tag: ByteArray, n: Int }
  Boxed(Int)
}

pub type Rec {
  owner: ByteArray,
  limit: Int,
}

pub type Nested {
  inner: Item,
  recs: List<Rec>,
  flag: Bool,
}

pub type Tree {
  Leaf
  Node { left: Tree, value: Int, right: Tree }
}

/// Explicit constructor tags across all three encodings of a constructor index
/// (121+i for i<7, 1280+(i-7) for i<128, tag 102 with an explicit index from 128 on).
pub type Spread {
  @tag(6)
  S6

  @tag(7)
  S7(Int)

  @tag(127)
  S127 { x: ByteArray }

  @tag(128)
  S128(Int)

  @tag(129)
  S129

  @tag(1170)
  S1170(Int, Int)
}

pub fn spread(s: Spread) -> Int {
  when s is {
    S6 -> 6
    S7(n) -> n
    S127 { x } -> builtin.length_of_bytearray(x)
    S128(n) -> n + 128
    S129 -> 129
    S1170(a, b) -> a + b
  }
}

@tag(12)
pub type Solo {
  owner: ByteArray,
}

@list
pub type Flat {
  name: ByteArray,
  n: Int,
}

/// More than seven constructors: indices 7 and 8 use the second range of constructor tags.
pub type Wide {
  W0
  W1(Int)
  W2
  W3 { a: Int, b: ByteArray }
  W4
  W5
  W6(Int)
  W7(Int)
  W8 { only: ByteArray }
}

pub fn wide(w: Wide) -> Int {
  when w is {
    W0 -> 0
    W1(n) -> n
    W2 -> 2
    W3 { a, .. } -> a
    W4 -> 4
    W5 -> 5
    W6(n) -> n + 6
    W7(n) -> n + 7
    W8 { only } -> builtin.length_of_bytearray(only)
  }
}

pub fn total(xs: List<Int>) -> Int {
  when xs is {
    [] -> 0
    [x, ..rest] -> x + total(rest)
  }
}

pub fn size(i: Item) -> Int {
  when i is {
    Plain -> 1
    Tagged { n, .. } -> n + 2
    Boxed(n) -> n
  }
}

pub fn depth(t: Tree) -> Int {
  when t is {
    Leaf -> 0
    Node { left, right, .. } -> {
      let l = depth(left)
      let r = depth(right)
      if l > r {
        l + 1
      } else {
        r + 1
      }
    }
  }
}

pub fn count(recs: List<Rec>) -> Int {
  when recs is {
    [] -> 0
    [r, ..rest] -> r.limit + count(rest)
  }
}

pub fn sum_pairs(ps: Pairs<ByteArray, Int>) -> Int {
  when ps is {
    [] -> 0
    [Pair(_, v), ..rest] -> v + sum_pairs(rest)
  }
}
"#;

/// (Aiken type, expression turning parameter `p` into an Int)
const PARAM_TYPES: &[(&str, &str)] = &[
    ("Int", "{p}"),
    ("ByteArray", "builtin.length_of_bytearray({p})"),
    ("Bool", "if {p} { 1 } else { 0 }"),
    ("List<Int>", "types.total({p})"),
    ("(Int, ByteArray)", "{p}.1st"),
    ("(Int, Int, Bool)", "{p}.2nd"),
    ("Option<Int>", "when {p} is { Some(n) -> n None -> 0 }"),
    ("types.Rec", "{p}.limit"),
    ("types.Item", "types.size({p})"),
    ("types.Nested", "types.count({p}.recs) + types.size({p}.inner)"),
    ("types.Tree", "types.depth({p})"),
    ("Pairs<ByteArray, Int>", "types.sum_pairs({p})"),
    ("Data", "1"),
    ("List<types.Item>", "1"),
    ("Option<types.Rec>", "when {p} is { Some(r) -> r.limit None -> 7 }"),
    ("types.Wide", "types.wide({p})"),
    ("types.Spread", "types.spread({p})"),
    ("types.Spread", "types.spread({p})"),
    ("types.Solo", "builtin.length_of_bytearray({p}.owner)"),
    ("types.Flat", "{p}.n"),
    ("List<types.Spread>", "3"),
    ("List<types.Wide>", "2"),
    ("(types.Wide, Int)", "{p}.2nd"),
];

pub fn gen_project(rng: &mut Rng) -> ProjSpec {
    let _ = DataModule::table_len;
    let mut files = vec![("lib/types.ak".to_string(), TYPES_MODULE.to_string())];
    let n_modules = 1 + rng.usize_below(2);
    // Module and validator names that are prefixes / near-duplicates of one another, and nested
    // module paths: look-ups by (module, validator) must not confuse them.
    let mut module_names = vec!["pv", "pv_x", "pva", "sub/pv", "sub/pv_x", "p"];
    rng.shuffle(&mut module_names);
    for m in 0..n_modules {
        let mut s = String::from("use aiken/builtin\nuse types\n\n");
        let n_validators = 1 + rng.usize_below(3);
        let mut validator_names = vec!["v", "v_a", "va", "v_ab", "w", "v_a_b"];
        rng.shuffle(&mut validator_names);
        for v in 0..n_validators {
            let n_params = 1 + rng.usize_below(4);
            let mut params = vec![];
            let mut uses = vec![];
            for p in 0..n_params {
                let (ty, usage) = rng.pick(PARAM_TYPES);
                params.push(format!("p{p}: {ty}"));
                uses.push(format!("({})", usage.replace("{p}", &format!("p{p}"))));
            }
            let sum = uses.join(" + ");
            s.push_str(&format!("validator {}({}) {{\n", validator_names[v], params.join(", ")));
            let handlers = 1 + rng.usize_below(3);
            s.push_str(&format!(
                "  mint(redeemer: Int, _policy_id: Data, _self: Data) {{\n    let _unused = builtin.length_of_bytearray(\"\")\n    redeemer + {sum} > {}\n  }}\n\n",
                rng.range(-5, 40)
            ));
            if handlers >= 2 {
                s.push_str(&format!(
                    "  spend(datum: Option<types.Rec>, redeemer: Int, _own_ref: Data, _self: Data) {{\n    expect Some(d) = datum\n    d.limit + redeemer + {sum} > {}\n  }}\n\n",
                    rng.range(-5, 40)
                ));
            }
            if handlers >= 3 {
                s.push_str(&format!(
                    "  withdraw(redeemer: List<Int>, _account: Data, _self: Data) {{\n    types.total(redeemer) + {sum} == {}\n  }}\n\n",
                    rng.range(0, 10)
                ));
            }
            s.push_str("  else(_) {\n    fail\n  }\n}\n\n");
        }
        files.push((format!("validators/{}.ak", module_names[m]), s));
    }
    files.sort();
    ProjSpec {
        id: format!("params/{:012x}", rng.next_u64() >> 16),
        toml: "name = \"sim/params\"\nversion = \"0.0.0\"\nplutus = \"v3\"\n".into(),
        files,
    }
}

// ------------------------------------------------------------------------------------------
// Independent schema interpretation (over the blueprint's JSON, not the typed API)

fn resolve<'a>(schema: &'a Value, defs: &'a Value) -> &'a Value {
    let mut s = schema;
    for _ in 0..16 {
        match s.get("$ref").and_then(|r| r.as_str()) {
            Some(r) => {
                let key = r
                    .trim_start_matches("#/definitions/")
                    .replace("~1", "/")
                    .replace("~0", "~");
                match defs.get(&key) {
                    Some(d) => s = d,
                    None => return &Value::Null,
                }
            }
            None => return s,
        }
    }
    s
}

fn constr_index(c: &Constr<PlutusData>) -> Option<u64> {
    match c.tag {
        121..=127 => Some(c.tag - 121),
        1280..=1400 => Some(c.tag - 1280 + 7),
        102 => c.any_constructor,
        _ => None,
    }
}

/// Does `d` conform to `schema`? (Definition of conformance per CIP-57, written independently of
/// `Parameter::validate`.)
pub fn conforms(schema: &Value, defs: &Value, d: &PlutusData) -> bool {
    let s = resolve(schema, defs);
    if s.is_null() {
        return false;
    }
    if let Some(variants) = s.get("anyOf").and_then(|a| a.as_array()) {
        let PlutusData::Constr(c) = d else {
            return false;
        };
        let Some(ix) = constr_index(c) else {
            return false;
        };
        // canonical tag encoding only (what `Data::constr` produces)
        let canonical = match ix {
            0..=6 => c.tag == 121 + ix && c.any_constructor.is_none(),
            7..=127 => c.tag == 1280 + ix - 7 && c.any_constructor.is_none(),
            _ => c.tag == 102 && c.any_constructor == Some(ix),
        };
        if !canonical {
            return false;
        }
        for v in variants {
            if v.get("index").and_then(|i| i.as_u64()) == Some(ix) {
                let fields = v.get("fields").and_then(|f| f.as_array()).cloned().unwrap_or_default();
                if fields.len() != c.fields.len() {
                    return false;
                }
                return fields
                    .iter()
                    .zip(c.fields.iter())
                    .all(|(fs, fd)| conforms(fs, defs, fd));
            }
        }
        return false;
    }
    match s.get("dataType").and_then(|t| t.as_str()) {
        Some("integer") => matches!(d, PlutusData::BigInt(_)),
        Some("bytes") => matches!(d, PlutusData::BoundedBytes(_)),
        Some("list") => {
            let PlutusData::Array(xs) = d else {
                return false;
            };
            match s.get("items") {
                Some(Value::Array(items)) => {
                    items.len() == xs.len()
                        && items.iter().zip(xs.iter()).all(|(i, x)| conforms(i, defs, x))
                }
                Some(item) => xs.iter().all(|x| conforms(item, defs, x)),
                None => true,
            }
        }
        Some("map") => {
            let PlutusData::Map(kvs) = d else {
                return false;
            };
            let k = s.get("keys").cloned().unwrap_or(json!({}));
            let v = s.get("values").cloned().unwrap_or(json!({}));
            kvs.iter()
                .all(|(kd, vd)| conforms(&k, defs, kd) && conforms(&v, defs, vd))
        }
        Some("constructor") => {
            // a bare constructor schema (not wrapped in anyOf)
            let PlutusData::Constr(c) = d else {
                return false;
            };
            let fields = s.get("fields").and_then(|f| f.as_array()).cloned().unwrap_or_default();
            constr_index(c) == s.get("index").and_then(|i| i.as_u64())
                && fields.len() == c.fields.len()
                && fields.iter().zip(c.fields.iter()).all(|(fs, fd)| conforms(fs, defs, fd))
        }
        Some(_) => false,
        // no dataType, no anyOf: opaque data
        None => true,
    }
}

fn int(n: i64) -> PlutusData {
    uplc::ast::Data::integer(BigInt::from(n))
}

fn gen_int(rng: &mut Rng) -> PlutusData {
    match rng.below(6) {
        0 => int(0),
        1 => int(-1),
        2 => uplc::ast::Data::integer(BigInt::from(u64::MAX) * BigInt::from(1u64 << 40) + BigInt::from(7)),
        3 => uplc::ast::Data::integer(-(BigInt::from(u64::MAX) * BigInt::from(1u64 << 20))),
        _ => int(rng.range(-50, 50)),
    }
}

fn gen_bytes(rng: &mut Rng) -> PlutusData {
    let n = match rng.below(5) {
        0 => 0,
        1 => 64,
        2 => 65 + rng.usize_below(40),
        _ => rng.usize_below(12),
    };
    uplc::ast::Data::bytestring(rng.bytes(n))
}

/// A value conforming to `schema`.
pub fn gen_value(schema: &Value, defs: &Value, rng: &mut Rng, depth: usize) -> PlutusData {
    let s = resolve(schema, defs);
    if let Some(variants) = s.get("anyOf").and_then(|a| a.as_array()) {
        if variants.is_empty() {
            return int(0);
        }
        // prefer constructors without recursion when deep
        let mut candidates: Vec<&Value> = variants.iter().collect();
        if depth > 3 {
            candidates.sort_by_key(|v| v.get("fields").and_then(|f| f.as_array()).map(|f| f.len()).unwrap_or(0));
            candidates.truncate(1);
        }
        let v = *rng.pick(&candidates);
        let ix = v.get("index").and_then(|i| i.as_u64()).unwrap_or(0);
        let fields = v.get("fields").and_then(|f| f.as_array()).cloned().unwrap_or_default();
        return uplc::ast::Data::constr(
            ix,
            fields.iter().map(|f| gen_value(f, defs, rng, depth + 1)).collect(),
        );
    }
    match s.get("dataType").and_then(|t| t.as_str()) {
        Some("integer") => gen_int(rng),
        Some("bytes") => gen_bytes(rng),
        Some("list") => match s.get("items") {
            Some(Value::Array(items)) => uplc::ast::Data::list(
                items.iter().map(|i| gen_value(i, defs, rng, depth + 1)).collect(),
            ),
            Some(item) => {
                let n = if depth > 3 { 0 } else { rng.usize_below(4) };
                uplc::ast::Data::list((0..n).map(|_| gen_value(item, defs, rng, depth + 1)).collect())
            }
            None => uplc::ast::Data::list(vec![]),
        },
        Some("map") => {
            let k = s.get("keys").cloned().unwrap_or(json!({}));
            let v = s.get("values").cloned().unwrap_or(json!({}));
            let n = rng.usize_below(3);
            uplc::ast::Data::map(
                (0..n)
                    .map(|_| (gen_value(&k, defs, rng, depth + 1), gen_value(&v, defs, rng, depth + 1)))
                    .collect(),
            )
        }
        Some("constructor") => {
            let ix = s.get("index").and_then(|i| i.as_u64()).unwrap_or(0);
            let fields = s.get("fields").and_then(|f| f.as_array()).cloned().unwrap_or_default();
            uplc::ast::Data::constr(ix, fields.iter().map(|f| gen_value(f, defs, rng, depth + 1)).collect())
        }
        _ => match rng.below(4) {
            0 => gen_int(rng),
            1 => gen_bytes(rng),
            2 => uplc::ast::Data::list(vec![int(1), gen_bytes(rng)]),
            _ => uplc::ast::Data::constr(rng.below(9), vec![int(3)]),
        },
    }
}

/// Mutate a value at a random node: the classic near-misses.
pub fn near_miss(d: &PlutusData, rng: &mut Rng) -> (PlutusData, &'static str) {
    // collect paths
    fn count(d: &PlutusData) -> usize {
        1 + match d {
            PlutusData::Constr(c) => c.fields.iter().map(count).sum::<usize>(),
            PlutusData::Array(xs) => xs.iter().map(count).sum::<usize>(),
            PlutusData::Map(kvs) => kvs.iter().map(|(k, v)| count(k) + count(v)).sum::<usize>(),
            _ => 0,
        }
    }
    fn mutate_at(d: &PlutusData, target: &mut usize, rng: &mut Rng, kind: &mut &'static str) -> PlutusData {
        if *target == 0 {
            *target = usize::MAX;
            return mutate(d, rng, kind);
        }
        if *target != usize::MAX {
            *target -= 1;
        }
        match d {
            PlutusData::Constr(c) => {
                let fields: Vec<PlutusData> = c.fields.iter().map(|f| mutate_at(f, target, rng, kind)).collect();
                PlutusData::Constr(Constr {
                    tag: c.tag,
                    any_constructor: c.any_constructor,
                    fields: match &c.fields {
                        MaybeIndefArray::Def(_) => MaybeIndefArray::Def(fields),
                        MaybeIndefArray::Indef(_) => MaybeIndefArray::Indef(fields),
                    },
                })
            }
            PlutusData::Array(xs) => uplc::ast::Data::list(xs.iter().map(|x| mutate_at(x, target, rng, kind)).collect()),
            PlutusData::Map(kvs) => uplc::ast::Data::map(
                kvs.iter()
                    .map(|(k, v)| (mutate_at(k, target, rng, kind), mutate_at(v, target, rng, kind)))
                    .collect(),
            ),
            other => other.clone(),
        }
    }
    fn mutate(d: &PlutusData, rng: &mut Rng, kind: &mut &'static str) -> PlutusData {
        match d {
            PlutusData::Constr(c) => {
                let ix = constr_index(c).unwrap_or(0);
                let fields: Vec<PlutusData> = c.fields.clone().to_vec();
                match rng.below(7) {
                    0 => {
                        *kind = "wrong-constructor-tag";
                        uplc::ast::Data::constr(ix + 1 + rng.below(3), fields)
                    }
                    6 => {
                        // another index that shares the encoding range (and, from 128 on, the tag)
                        *kind = "other-index-same-range";
                        let other = match ix {
                            0..=6 => (ix + 1 + rng.below(5)) % 7,
                            7..=127 => 7 + (ix - 7 + 1 + rng.below(100)) % 121,
                            _ => ix + 1 + rng.below(1200),
                        };
                        uplc::ast::Data::constr(other, fields)
                    }
                    1 => {
                        *kind = "right-tag-missing-field";
                        let mut f = fields;
                        f.pop();
                        uplc::ast::Data::constr(ix, f)
                    }
                    2 => {
                        *kind = "right-tag-extra-field";
                        let mut f = fields;
                        f.push(int(9));
                        uplc::ast::Data::constr(ix, f)
                    }
                    3 => {
                        *kind = "constructor-replaced-by-list";
                        uplc::ast::Data::list(fields)
                    }
                    4 => {
                        *kind = "huge-constructor-tag";
                        uplc::ast::Data::constr(128 + rng.below(1000), fields)
                    }
                    _ => {
                        *kind = "constructor-replaced-by-int";
                        int(ix as i64)
                    }
                }
            }
            PlutusData::Array(xs) => match rng.below(4) {
                0 => {
                    *kind = "list-extra-item";
                    let mut v = xs.clone().to_vec();
                    v.push(gen_bytes(rng));
                    uplc::ast::Data::list(v)
                }
                1 => {
                    *kind = "list-missing-item";
                    let mut v = xs.clone().to_vec();
                    v.pop();
                    uplc::ast::Data::list(v)
                }
                2 => {
                    *kind = "map-for-list";
                    uplc::ast::Data::map(xs.iter().map(|x| (x.clone(), x.clone())).collect())
                }
                _ => {
                    *kind = "list-replaced-by-constr";
                    uplc::ast::Data::constr(0, xs.clone().to_vec())
                }
            },
            PlutusData::Map(kvs) => {
                *kind = "list-for-map";
                uplc::ast::Data::list(kvs.iter().map(|(k, _)| k.clone()).collect())
            }
            PlutusData::BigInt(_) => {
                *kind = "bytes-for-int";
                gen_bytes(rng)
            }
            PlutusData::BoundedBytes(_) => {
                *kind = "int-for-bytes";
                gen_int(rng)
            }
        }
    }
    let n = count(d);
    let mut target = rng.usize_below(n);
    let mut kind = "none";
    let out = mutate_at(d, &mut target, rng, &mut kind);
    (out, kind)
}

// ------------------------------------------------------------------------------------------
// Histories

#[derive(Clone, Debug, Serialize, Deserialize, PartialEq)]
pub enum Op {
    /// Apply a parameter (hex CBOR) to validator group `g` through the file, like the CLI.
    Apply { group: usize, data_hex: String, note: String },
    /// Apply with no module / validator filter.
    ApplyUnfiltered { data_hex: String },
    /// Load and re-save the file.
    Reload,
    /// Ask for address and policy of group `g`.
    Query { group: usize },
}

#[derive(Clone, Debug, Serialize, Deserialize, PartialEq)]
pub struct History {
    pub spec: ProjSpec,
    pub epoch: u64,
    pub trace_level: u8,
    pub ops: Vec<Op>,
    /// redeemers (ints) used for the behavioural comparison at the end
    pub redeemers: Vec<i64>,
    /// Plutus version the plutus.json claims: the tool-chain builds v3 only, but `aiken blueprint
    /// apply|address|policy` also serve blueprints written by earlier releases. For 1 and 2 the
    /// built file is re-labelled (preamble + hashes under that version's tag) before the history.
    #[serde(default = "three")]
    pub plutus: u8,
}

fn three() -> u8 {
    3
}

#[derive(Clone, Debug)]
struct Group {
    module: String,
    validator: String,
    /// compiledCode hex of the unapplied validator, as first published
    original_hex: String,
    applied: Vec<PlutusData>,
    /// JSON schemas of the parameters not applied yet
    remaining: Vec<Value>,
}

fn data_hex(d: &PlutusData) -> String {
    uplc::ast::Data::to_hex(d.clone())
}

fn data_from_hex(h: &str) -> Option<PlutusData> {
    uplc::plutus_data(&hex::decode(h).ok()?).ok()
}

fn decode_program(hexs: &str) -> Option<Program<DeBruijn>> {
    let mut a = vec![];
    let mut b = vec![];
    Program::<DeBruijn>::from_hex(hexs, &mut a, &mut b).ok()
}

fn independent_hash(hexs: &str, version_tag: u8) -> Option<String> {
    let cbor = hex::decode(hexs).ok()?;
    let mut ctx = Blake2b::new(28);
    ctx.input(&[version_tag]);
    ctx.input(&cbor);
    let mut out = [0u8; 28];
    ctx.result(&mut out);
    Some(hex::encode(out))
}

fn model_program(g: &Group) -> Option<Program<DeBruijn>> {
    let original = decode_program(&g.original_hex)?;
    let mut term = original.term;
    for d in &g.applied {
        term = Term::Apply {
            function: Rc::new(term),
            argument: Rc::new(Term::Constant(Rc::new(Constant::Data(d.clone())))),
        };
    }
    Some(Program {
        version: original.version,
        term,
    })
}

fn read_json(path: &Path) -> Option<Value> {
    serde_json::from_str(&std::fs::read_to_string(path).ok()?).ok()
}

fn group_of(title: &str) -> (String, String) {
    let mut parts = title.split('.');
    (
        parts.next().unwrap_or("").to_string(),
        parts.next().unwrap_or("").to_string(),
    )
}

pub struct HistoryOutcome {
    pub violations: Vec<(String, String, usize)>,
    pub ops_done: usize,
    pub accepted: usize,
    pub rejected: usize,
    pub evals: usize,
    pub evals_succeeded: usize,
    pub fully_applied: usize,
    pub groups: usize,
    pub near_miss_kinds: Vec<String>,
}

fn eval_outcome(p: &Program<DeBruijn>, args: &[PlutusData]) -> (String, i64, i64) {
    let mut prog = p.clone();
    for a in args {
        prog = Program {
            version: prog.version,
            term: Term::Apply {
                function: Rc::new(prog.term),
                argument: Rc::new(Term::Constant(Rc::new(Constant::Data(a.clone())))),
            },
        };
    }
    let named: Program<NamedDeBruijn> = prog.into();
    let r = named.eval(ExBudget::default());
    let cost = r.cost();
    let res = match r.result() {
        Ok(t) => t.to_pretty(),
        Err(e) => {
            let d = format!("{e:?}");
            format!("error:{}", d.split(['(', ' ', '{']).next().unwrap_or(""))
        }
    };
    (res, cost.cpu, cost.mem)
}

fn mint_context(redeemer: i64) -> PlutusData {
    // ScriptContext { transaction, redeemer, info: Minting(policy_id) }
    uplc::ast::Data::constr(
        0,
        vec![
            int(0),
            int(redeemer),
            uplc::ast::Data::constr(0, vec![uplc::ast::Data::bytestring(vec![0xab; 28])]),
        ],
    )
}

/// Execute a history against the real tool-chain inside a pool thread.
pub fn execute(h: &History) -> Result<HistoryOutcome, String> {
    let h = h.clone();
    hashseed::set_epoch(h.epoch | 1);
    let r = with_pool(1, move || execute_inner(&h));
    hashseed::clear_epoch();
    r
}

fn execute_inner(h: &History) -> Result<HistoryOutcome, String> {
    let disk = RunDisk::new();
    disk.materialize(&h.spec, &identity_order(&h.spec));
    let root = disk.root.clone();
    let path = root.join("plutus.json");
    let mut opts = Opts::default_check();
    opts.trace_level = h.trace_level;
    let (mut project, _cap) = new_project(&root)?;
    let b = do_build(&mut project, &root, &opts);
    if !b.ok {
        return Err(format!("generated validators do not build: {:?}", b.errors));
    }
    let mut out = HistoryOutcome {
        violations: vec![],
        ops_done: 0,
        accepted: 0,
        rejected: 0,
        evals: 0,
        evals_succeeded: 0,
        fully_applied: 0,
        groups: 0,
        near_miss_kinds: vec![],
    };
    let mut initial = read_json(&path).ok_or("cannot read plutus.json")?;
    let version_tag = if (1..=3).contains(&h.plutus) { h.plutus } else { 3 };
    if version_tag != 3 {
        // the same code published as a Plutus V1 / V2 blueprint
        if let Some(p) = initial.get_mut("preamble").and_then(|p| p.as_object_mut()) {
            p.insert("plutusVersion".into(), json!(format!("v{version_tag}")));
        }
        if let Some(vs) = initial.get_mut("validators").and_then(|v| v.as_array_mut()) {
            for v in vs {
                let code = jstr(v, "compiledCode");
                if let (Some(o), Some(hash)) = (v.as_object_mut(), independent_hash(&code, version_tag)) {
                    o.insert("hash".into(), json!(hash));
                }
            }
        }
        std::fs::write(&path, serde_json::to_string_pretty(&initial).map_err(|e| e.to_string())?).map_err(|e| e.to_string())?;
    }
    let defs = initial.get("definitions").cloned().unwrap_or(json!({}));
    // Model: one group per (module, validator).
    let mut groups: Vec<Group> = vec![];
    for v in initial.get("validators").and_then(|v| v.as_array()).cloned().unwrap_or_default() {
        let (m, n) = group_of(&jstr(&v, "title"));
        if groups.iter().any(|g| g.module == m && g.validator == n) {
            continue;
        }
        let remaining = v
            .get("parameters")
            .and_then(|p| p.as_array())
            .map(|ps| ps.iter().map(|p| p.get("schema").cloned().unwrap_or(json!({}))).collect())
            .unwrap_or_default();
        groups.push(Group {
            module: m,
            validator: n,
            original_hex: jstr(&v, "compiledCode"),
            applied: vec![],
            remaining,
        });
    }
    out.groups = groups.len();
    if groups.is_empty() {
        return Err("no validators in blueprint".into());
    }

    // Invariants on the published file against the model.
    let check_file = |groups: &[Group], step: usize, out: &mut HistoryOutcome| {
        let Some(doc) = read_json(&path) else {
            out.violations.push(("file-unreadable".into(), "plutus.json is not valid JSON after a successful operation".into(), step));
            return;
        };
        for v in doc.get("validators").and_then(|v| v.as_array()).cloned().unwrap_or_default() {
            let title = jstr(&v, "title");
            let (m, n) = group_of(&title);
            let Some(g) = groups.iter().find(|g| g.module == m && g.validator == n) else {
                continue;
            };
            let code = jstr(&v, "compiledCode");
            let hash = jstr(&v, "hash");
            let params = v.get("parameters").and_then(|p| p.as_array()).map(|p| p.len()).unwrap_or(0);
            if params != g.remaining.len() {
                out.violations.push((
                    "parameters-consumed".into(),
                    format!("{title}: {} parameter(s) left in the file, the model has {} after applying {}", params, g.remaining.len(), g.applied.len()),
                    step,
                ));
            }
            match (decode_program(&code), model_program(g)) {
                (Some(p), Some(m)) => {
                    if p != m {
                        out.violations.push((
                            "code-is-not-the-application".into(),
                            format!("{title}: published compiledCode is not [(…[(original d1)]…) d{}] (published {} flat bytes, model {} flat bytes)", g.applied.len(), p.to_flat().map(|f| f.len()).unwrap_or(0), m.to_flat().map(|f| f.len()).unwrap_or(0)),
                            step,
                        ));
                    }
                }
                (None, _) => out.violations.push(("code-undecodable".into(), format!("{title}: published compiledCode does not decode"), step)),
                _ => {}
            }
            if independent_hash(&code, version_tag).as_deref() != Some(hash.as_str()) {
                out.violations.push((
                    "stale-hash".into(),
                    format!("{title}: published hash {hash} is not blake2b-224(0x0{version_tag} ‖ compiledCode) = {:?}", independent_hash(&code, version_tag)),
                    step,
                ));
            }
        }
    };
    check_file(&groups, 0, &mut out);

    for (i, op) in h.ops.iter().enumerate() {
        let step = i + 1;
        out.ops_done += 1;
        let before_text = std::fs::read_to_string(&path).unwrap_or_default();
        match op {
            Op::Apply { group, data_hex: dh, note } => {
                let gi = group % groups.len();
                let Some(d) = data_from_hex(dh) else { continue };
                let (m, n) = (groups[gi].module.clone(), groups[gi].validator.clone());
                let expected_ok = match groups[gi].remaining.first() {
                    Some(schema) => conforms(schema, &defs, &d),
                    None => false,
                };
                let res = guard(|| -> Result<(), String> {
                    let mut bp = Project::<Capture>::blueprint(&path).map_err(|e| format!("load: {e}"))?;
                    let before = serde_json::to_string(&bp).unwrap_or_default();
                    match bp.apply_parameter(Some(&m), Some(&n), &d) {
                        Ok(()) => {
                            let json = serde_json::to_string_pretty(&bp).map_err(|e| e.to_string())?;
                            std::fs::write(&path, json).map_err(|e| e.to_string())?;
                            Ok(())
                        }
                        Err(e) => {
                            let after = serde_json::to_string(&bp).unwrap_or_default();
                            if after != before {
                                return Err("MUTATED-ON-REJECT".into());
                            }
                            Err(format!("rejected: {}", short(&format!("{e}"), 120)))
                        }
                    }
                });
                match res {
                    Err(p) => out.violations.push((
                        "panic".into(),
                        format!("apply {} ({note}) to {m}.{n} panicked: {} @ {}", dh, p.message, p.location),
                        step,
                    )),
                    Ok(Ok(())) => {
                        out.accepted += 1;
                        if !expected_ok {
                            out.violations.push((
                                "accepted-nonconforming".into(),
                                format!("apply {dh} ({note}) to {m}.{n}: accepted, but the value does not conform to the declared schema {} of the next parameter (or none is left)", groups[gi].remaining.first().map(|s| s.to_string()).unwrap_or("<none left>".into())),
                                step,
                            ));
                        }
                        // model step
                        if !groups[gi].remaining.is_empty() {
                            groups[gi].remaining.remove(0);
                            groups[gi].applied.push(d.clone());
                        }
                        check_file(&groups, step, &mut out);
                    }
                    Ok(Err(e)) => {
                        out.rejected += 1;
                        if e == "MUTATED-ON-REJECT" {
                            out.violations.push(("mutated-on-reject".into(), format!("apply {dh} ({note}) to {m}.{n} was rejected but changed the in-memory blueprint"), step));
                        }
                        if expected_ok {
                            out.violations.push((
                                "rejected-conforming".into(),
                                format!("apply {dh} ({note}) to {m}.{n}: {e}, but the value conforms to the declared schema {}", groups[gi].remaining.first().map(|s| s.to_string()).unwrap_or_default()),
                                step,
                            ));
                        }
                        if std::fs::read_to_string(&path).unwrap_or_default() != before_text {
                            out.violations.push(("file-changed-on-reject".into(), format!("apply {dh} was rejected but plutus.json changed"), step));
                        }
                    }
                }
                if note != "conforming" && !out.near_miss_kinds.contains(note) {
                    out.near_miss_kinds.push(note.clone());
                }
            }
            Op::ApplyUnfiltered { data_hex: dh } => {
                let Some(d) = data_from_hex(dh) else { continue };
                let res = guard(|| -> Result<bool, String> {
                    let mut bp = Project::<Capture>::blueprint(&path).map_err(|e| format!("load: {e}"))?;
                    Ok(bp.apply_parameter(None, None, &d).is_ok())
                });
                match res {
                    Err(p) => out.violations.push(("panic".into(), format!("unfiltered apply {dh} panicked: {} @ {}", p.message, p.location), step)),
                    Ok(Ok(true)) if groups.len() > 1 => out.violations.push((
                        "ambiguous-apply-accepted".into(),
                        format!("apply {dh} without module/validator filter succeeded although the blueprint has {} validators", groups.len()),
                        step,
                    )),
                    _ => {}
                }
            }
            Op::Reload => {
                let res = guard(|| -> Result<(), String> {
                    let bp = Project::<Capture>::blueprint(&path).map_err(|e| format!("load: {e}"))?;
                    let json = serde_json::to_string_pretty(&bp).map_err(|e| e.to_string())?;
                    std::fs::write(&path, json).map_err(|e| e.to_string())
                });
                match res {
                    Err(p) => out.violations.push(("panic".into(), format!("reload panicked: {} @ {}", p.message, p.location), step)),
                    Ok(Err(e)) => out.violations.push(("reload-failed".into(), format!("a blueprint the tool wrote cannot be loaded again: {e}"), step)),
                    Ok(Ok(())) => {
                        if std::fs::read_to_string(&path).unwrap_or_default() != before_text {
                            out.violations.push(("reload-changed-file".into(), "load + save changed plutus.json".into(), step));
                        }
                        check_file(&groups, step, &mut out);
                    }
                }
            }
            Op::Query { group } => {
                let gi = group % groups.len();
                let g = &groups[gi];
                let res = guard(|| {
                    let policy = project.policy(Some(&g.module), Some(&g.validator), &path);
                    let address = project.address(Some(&g.module), Some(&g.validator), None, &path, false);
                    let mainnet = project.address(Some(&g.module), Some(&g.validator), None, &path, true);
                    // with a delegation part: a testnet stake-key address (header 0xe0 ‖ 28 bytes)
                    let stake = format!("e0{}", "5a".repeat(28));
                    let delegated = project.address(Some(&g.module), Some(&g.validator), Some(&stake), &path, false);
                    (
                        policy.map(|p| p.to_string()).map_err(|e| format!("{e}")),
                        match (address, mainnet, delegated) {
                            (Ok(a), Ok(m), Ok(d)) => Ok(format!("{}|{}|{}", hex::encode(a.to_vec()), hex::encode(m.to_vec()), hex::encode(d.to_vec()))),
                            (Err(e), _, _) | (_, Err(e), _) | (_, _, Err(e)) => Err(format!("{e}")),
                        },
                    )
                });
                match res {
                    Err(p) => out.violations.push(("panic".into(), format!("address/policy query panicked: {} @ {}", p.message, p.location), step)),
                    Ok((policy, address)) => {
                        if !g.remaining.is_empty() {
                            if policy.is_ok() || address.is_ok() {
                                out.violations.push((
                                    "address-of-parameterised".into(),
                                    format!("{}.{} still has {} parameter(s) but address/policy were handed out", g.module, g.validator, g.remaining.len()),
                                    step,
                                ));
                            }
                        } else {
                            let doc = read_json(&path).unwrap_or(Value::Null);
                            let hash = doc
                                .get("validators")
                                .and_then(|v| v.as_array())
                                .and_then(|vs| vs.iter().find(|v| group_of(&jstr(v, "title")) == (g.module.clone(), g.validator.clone())).map(|v| jstr(v, "hash")))
                                .unwrap_or_default();
                            match (&policy, &address) {
                                (Ok(p), Ok(a)) => {
                                    // script address without delegation: header 0x70 (testnet) / 0x71
                                    // (mainnet) ‖ hash
                                    // with a key delegation part: header 0x10 ‖ script hash ‖ key hash
                                    // (the address command takes the Plutus version from aiken.toml, which
                                    // can only say v3; for a re-labelled v1/v2 blueprint only the policy,
                                    // which follows the blueprint, is compared)
                                    if p != &hash || (version_tag == 3 && a != &format!("70{hash}|71{hash}|10{hash}{}", "5a".repeat(28))) {
                                        out.violations.push((
                                            "address-hash-mismatch".into(),
                                            format!("{}.{}: policy {p}, address {a}, published hash {hash}", g.module, g.validator),
                                            step,
                                        ));
                                    }
                                }
                                _ => out.violations.push((
                                    "address-refused".into(),
                                    format!("{}.{} is fully applied but address/policy are refused: {policy:?} {address:?}", g.module, g.validator),
                                    step,
                                )),
                            }
                        }
                    }
                }
            }
        }
    }

    // History checks at the end.
    let doc = read_json(&path).unwrap_or(Value::Null);
    for g in &groups {
        if g.applied.is_empty() {
            continue;
        }
        let published = doc
            .get("validators")
            .and_then(|v| v.as_array())
            .and_then(|vs| vs.iter().find(|v| group_of(&jstr(v, "title")) == (g.module.clone(), g.validator.clone())).map(|v| jstr(v, "compiledCode")))
            .unwrap_or_default();
        // raw-bytes path: all at once
        let params = uplc::ast::Data::list(g.applied.clone());
        let params_bytes = uplc::plutus_data_to_bytes(&params);
        let original_cbor = hex::decode(&g.original_hex).unwrap_or_default();
        match guard(|| uplc::tx::apply_params_to_script(&params_bytes, &original_cbor)) {
            Ok(Ok(bytes)) => {
                if hex::encode(&bytes) != published {
                    out.violations.push((
                        "raw-path-differs".into(),
                        format!("{}.{}: applying {} parameter(s) one by one through plutus.json differs from apply_params_to_script on the original bytes", g.module, g.validator, g.applied.len()),
                        h.ops.len(),
                    ));
                }
            }
            Ok(Err(e)) => out.violations.push(("raw-path-differs".into(), format!("apply_params_to_script failed: {e}"), h.ops.len())),
            Err(p) => out.violations.push(("panic".into(), format!("apply_params_to_script panicked: {} @ {}", p.message, p.location), h.ops.len())),
        }
        // all at once through the typed API on a pristine blueprint
        let all_at_once = guard(|| -> Option<String> {
            let mut bp: aiken_project::blueprint::Blueprint = serde_json::from_value(initial.clone()).ok()?;
            for d in &g.applied {
                bp.apply_parameter(Some(&g.module), Some(&g.validator), d).ok()?;
            }
            let v = serde_json::to_value(&bp).ok()?;
            v.get("validators")?.as_array()?.iter().find(|v| group_of(&jstr(v, "title")) == (g.module.clone(), g.validator.clone())).map(|v| jstr(v, "compiledCode"))
        });
        if let Ok(Some(code)) = all_at_once {
            if code != published {
                out.violations.push((
                    "in-memory-path-differs".into(),
                    format!("{}.{}: one by one through files differs from all at once in memory", g.module, g.validator),
                    h.ops.len(),
                ));
            }
        }
        // behaviour
        if g.remaining.is_empty() {
            out.fully_applied += 1;
            if let (Some(applied), Some(original)) = (decode_program(&published), decode_program(&g.original_hex)) {
                for r in &h.redeemers {
                    let ctx = mint_context(*r);
                    let a = eval_outcome(&applied, std::slice::from_ref(&ctx));
                    let mut args = g.applied.clone();
                    args.push(ctx);
                    let b = eval_outcome(&original, &args);
                    out.evals += 2;
                    if !a.0.starts_with("error:") {
                        out.evals_succeeded += 1;
                    }
                    if a != b {
                        out.violations.push((
                            "behaviour-differs".into(),
                            format!("{}.{} redeemer {r}: applied validator gives {:?}, original applied to all arguments gives {:?}", g.module, g.validator, a, b),
                            h.ops.len(),
                        ));
                    }
                }
            }
        }
    }
    Ok(out)
}

/// Draw a history. Needs the schemas, so the project is built once here to read them.
fn gen_history(rng: &mut Rng, spec: ProjSpec, epoch: u64) -> Result<History, String> {
    // Build once to learn the parameter schemas (reference epoch, deterministic).
    let spec2 = spec.clone();
    hashseed::set_epoch(0xB1_0000_0001);
    let doc = with_pool(1, move || {
        let disk = RunDisk::new();
        disk.materialize(&spec2, &identity_order(&spec2));
        let (mut p, _) = new_project(&disk.root)?;
        let b = do_build(&mut p, &disk.root, &Opts::default_check());
        if !b.ok {
            return Err(format!("does not build: {:?}", b.errors));
        }
        serde_json::from_str::<Value>(&b.blueprint).map_err(|e| e.to_string())
    });
    hashseed::clear_epoch();
    let doc = doc?;
    let defs = doc.get("definitions").cloned().unwrap_or(json!({}));
    let mut groups: Vec<(String, Vec<Value>)> = vec![];
    for v in doc.get("validators").and_then(|v| v.as_array()).cloned().unwrap_or_default() {
        let (m, n) = group_of(&jstr(&v, "title"));
        let key = format!("{m}.{n}");
        if groups.iter().any(|(k, _)| k == &key) {
            continue;
        }
        let ps = v
            .get("parameters")
            .and_then(|p| p.as_array())
            .map(|ps| ps.iter().map(|p| p.get("schema").cloned().unwrap_or(json!({}))).collect())
            .unwrap_or_default();
        groups.push((key, ps));
    }
    if groups.is_empty() {
        return Err("no validators".into());
    }
    let mut cursor: Vec<usize> = vec![0; groups.len()];
    let mut ops = vec![];
    let n_ops = 6 + rng.usize_below(14);
    for _ in 0..n_ops {
        let g = rng.usize_below(groups.len());
        let schema = groups[g].1.get(cursor[g]).cloned();
        match rng.below(12) {
            0 => ops.push(Op::Reload),
            1 => ops.push(Op::Query { group: g }),
            2 => {
                let d = match &schema {
                    Some(s) => gen_value(s, &defs, rng, 0),
                    None => int(1),
                };
                ops.push(Op::ApplyUnfiltered { data_hex: data_hex(&d) });
            }
            3..=6 => {
                // near miss
                let base = match &schema {
                    Some(s) => gen_value(s, &defs, rng, 0),
                    None => int(1),
                };
                let (d, kind) = near_miss(&base, rng);
                let ok = schema.as_ref().map(|s| conforms(s, &defs, &d)).unwrap_or(false);
                ops.push(Op::Apply { group: g, data_hex: data_hex(&d), note: kind.to_string() });
                if ok {
                    cursor[g] += 1;
                }
            }
            _ => {
                let (d, note) = match &schema {
                    Some(s) => (gen_value(s, &defs, rng, 0), "conforming"),
                    None => (int(1), "none-left"),
                };
                ops.push(Op::Apply { group: g, data_hex: data_hex(&d), note: note.to_string() });
                if schema.is_some() {
                    cursor[g] += 1;
                }
            }
        }
    }
    // Drive one group to completion so that address / behaviour checks are reached.
    let g = rng.usize_below(groups.len());
    while cursor[g] < groups[g].1.len() {
        let d = gen_value(&groups[g].1[cursor[g]], &defs, rng, 0);
        ops.push(Op::Apply { group: g, data_hex: data_hex(&d), note: "conforming".into() });
        cursor[g] += 1;
    }
    ops.push(Op::Query { group: g });
    ops.push(Op::Apply { group: g, data_hex: data_hex(&int(5)), note: "none-left".into() });
    ops.push(Op::Reload);
    Ok(History {
        spec,
        epoch,
        trace_level: rng.below(3) as u8,
        ops,
        redeemers: (0..3).map(|_| rng.range(-60, 120)).collect(),
        plutus: *rng.pick(&[3u8, 3, 3, 3, 3, 3, 2, 2, 2, 1]),
    })
}

fn report(ctx: &mut RunCtx, h: &History, violations: &[(String, String, usize)], minimised: bool) {
    let mut seen = std::collections::BTreeSet::new();
    for (class, detail, step) in violations {
        if !seen.insert(class.clone()) {
            continue;
        }
        let site = if class == "panic" {
            detail.rsplit(" @ ").next().map(|s| {
                let s = s.strip_prefix("/repo/crates/").unwrap_or(s);
                format!("|site={s}")
            }).unwrap_or_default()
        } else {
            String::new()
        };
        ctx.violation(
            PROP,
            class,
            if class == "panic" { format!("panic|apply{site}") } else { class.to_string() },
            format!(
                "history of {} operation(s) on plutus.json of {} ({} validator module(s)){}: at step {step}: {detail}\nops: {:?}",
                h.ops.len(),
                h.spec.id,
                h.spec.files.len() - 1,
                if minimised { " [minimised]" } else { "" },
                h.ops.iter().map(|o| match o {
                    Op::Apply { group, data_hex, note } => format!("apply g{group} {data_hex} ({note})"),
                    Op::ApplyUnfiltered { data_hex } => format!("apply-unfiltered {data_hex}"),
                    Op::Reload => "reload".into(),
                    Op::Query { group } => format!("query g{group}"),
                }).collect::<Vec<_>>()
            ),
            json!({ "history": h }),
        );
    }
}

fn minimise(h: &History, classes: &[String]) -> History {
    let still = |c: &History| {
        execute(c)
            .map(|o| o.violations.iter().any(|(cl, _, _)| classes.contains(cl)))
            .unwrap_or(false)
    };
    let mut best = h.clone();
    let mut i = 0;
    let mut budget = 40;
    while i < best.ops.len() && budget > 0 {
        let mut c = best.clone();
        c.ops.remove(i);
        budget -= 1;
        if still(&c) {
            best = c;
        } else {
            i += 1;
        }
    }
    if best.redeemers.len() > 1 {
        let mut c = best.clone();
        c.redeemers.truncate(1);
        if still(&c) {
            best = c;
        }
    }
    best
}

impl Engine for BlueprintEngine {
    fn property(&self) -> &'static str {
        PROP
    }
    fn name(&self) -> &'static str {
        "sim-blueprint"
    }
    fn engine_id(&self) -> u64 {
        18
    }
    fn runs(&self, tier: Tier) -> u64 {
        match tier {
            Tier::Quick => 360,
            Tier::Thorough => 9000,
        }
    }
    fn selfcheck_runs(&self, tier: Tier) -> u64 {
        match tier {
            Tier::Quick => 12,
            Tier::Thorough => 48,
        }
    }

    fn run(&self, ctx: &mut RunCtx) {
        let spec = gen_project(&mut ctx.rng);
        let epoch = ctx.rng.next_u64() | 1;
        let h = match guard(|| gen_history(&mut ctx.rng.clone(), spec.clone(), epoch)) {
            Ok(Ok(h)) => h,
            Ok(Err(e)) => {
                ctx.harness_error(format!("cannot prepare history: {e}\n{:?}", spec.files.iter().map(|(p, c)| format!("{p}:\n{c}")).collect::<Vec<_>>()));
                return;
            }
            Err(p) => {
                ctx.harness_error(format!("preparing history panicked: {} @ {}", p.message, p.location));
                return;
            }
        };
        let _ = ctx.rng.next_u64();
        ctx.event(&format!("history {} ops={:?}", h.spec.id, h.ops));
        let outcome = match guard(|| execute(&h)) {
            Ok(Ok(o)) => o,
            Ok(Err(e)) => {
                ctx.harness_error(e);
                return;
            }
            Err(p) => {
                ctx.violation(
                    PROP,
                    "panic",
                    format!("panic|history|site={}", p.site()),
                    format!("history on {} panicked outside a guarded step: {} @ {}", h.spec.id, p.message, p.location),
                    json!({ "history": h }),
                );
                return;
            }
        };
        ctx.logical_steps += outcome.ops_done as u64;
        ctx.stats.inc("evaluations", outcome.ops_done as u64 + outcome.evals as u64);
        ctx.stats.inc("operations", outcome.ops_done as u64);
        ctx.stats.inc(&format!("histories_plutus_v{}", h.plutus), 1);
        ctx.stats.inc("applies_accepted", outcome.accepted as u64);
        ctx.stats.inc("applies_rejected", outcome.rejected as u64);
        ctx.stats.inc("behaviour_evaluations", outcome.evals as u64);
        ctx.stats.inc("behaviour_evaluations_not_erroring", outcome.evals_succeeded as u64);
        ctx.stats.inc("validators_fully_applied", outcome.fully_applied as u64);
        ctx.stats.inc("validator_groups", outcome.groups as u64);
        for k in &outcome.near_miss_kinds {
            ctx.stats.inc(&format!("nearmiss_{k}"), 1);
        }
        for op in &h.ops {
            ctx.stats.inc(
                match op {
                    Op::Apply { .. } => "op_apply",
                    Op::ApplyUnfiltered { .. } => "op_apply_unfiltered",
                    Op::Reload => "op_reload",
                    Op::Query { .. } => "op_query",
                },
                1,
            );
        }
        ctx.stats.add("histories", hash_str(&serde_json::to_string(&h).unwrap()));
        ctx.event(&format!(
            "outcome accepted={} rejected={} violations={}",
            outcome.accepted,
            outcome.rejected,
            outcome.violations.len()
        ));
        if !outcome.violations.is_empty() {
            let classes: Vec<String> = outcome.violations.iter().map(|(c, _, _)| c.clone()).collect();
            let min = minimise(&h, &classes);
            match execute(&min) {
                Ok(o) if !o.violations.is_empty() && min != h => report(ctx, &min, &o.violations, true),
                _ => report(ctx, &h, &outcome.violations, false),
            }
        }
        if ctx.k % 31 == 0 {
            ctx.stats.sample(json!({
                "validators": h.spec.files.iter().filter(|(p, _)| p.starts_with("validators")).map(|(_, c)| c.lines().filter(|l| l.starts_with("validator")).collect::<Vec<_>>()).collect::<Vec<_>>(),
                "ops": h.ops.iter().take(12).collect::<Vec<_>>(),
                "accepted": outcome.accepted,
                "rejected": outcome.rejected,
            }));
        }
    }

    fn replay(&self, trace: &Value, ctx: &mut RunCtx) {
        let Some(h) = trace
            .get("history")
            .and_then(|h| serde_json::from_value::<History>(h.clone()).ok())
        else {
            ctx.harness_error("replay: no history".into());
            return;
        };
        match guard(|| execute(&h)) {
            Ok(Ok(o)) => report(ctx, &h, &o.violations, false),
            Ok(Err(e)) => ctx.harness_error(e),
            Err(p) => ctx.violation(
                PROP,
                "panic",
                format!("panic|history|site={}", p.site()),
                format!("panicked: {} @ {}", p.message, p.location),
                trace.clone(),
            ),
        }
    }

    fn evidence(&self, stats: &Stats, _tier: Tier) -> EvidenceParts {
        let near: BTreeMap<String, u64> = stats
            .counters
            .iter()
            .filter(|(k, _)| k.starts_with("nearmiss_"))
            .map(|(k, v)| (k.trim_start_matches("nearmiss_").to_string(), *v))
            .collect();
        EvidenceParts {
            level: "exploration",
            evaluations: stats.get("evaluations"),
            distinct_nontrivial: stats.distinct("histories"),
            rule: "one run = one generated project (1-2 validator modules, 1-2 validators each, 1-4 parameters drawn from 15 serialisable types incl. tuples, Option, records, multi-constructor and recursive ADTs, Pairs, Data; 1-3 handlers) built by the real tool-chain, then a seeded history of 10-30 operations on its plutus.json: apply a conforming value / a near-miss (wrong tag, right tag wrong arity, wrong leaf kind, extra/missing tuple item, list↔map, huge tag) / with no filter / when none is left, reload, query address+policy — each through the file like `aiken blueprint apply`; after every step the file is compared with the reference model, at the end one-by-one ≡ all-at-once ≡ raw-bytes path and the applied validator is evaluated against the original applied to all arguments; distinct = distinct histories; non-trivial = all (every history applies at least all parameters of one validator)".into(),
            extra: json!({
                "operation_kinds": {
                    "apply": stats.get("op_apply"),
                    "apply_unfiltered": stats.get("op_apply_unfiltered"),
                    "reload": stats.get("op_reload"),
                    "query_address_policy": stats.get("op_query"),
                    "accepted": stats.get("applies_accepted"),
                    "rejected": stats.get("applies_rejected"),
                },
                "near_miss_kinds_that_fired": near,
                "behaviour": {
                    "evaluations": stats.get("behaviour_evaluations"),
                    "not_erroring": stats.get("behaviour_evaluations_not_erroring"),
                    "validators_fully_applied": stats.get("validators_fully_applied"),
                },
                "components": {
                    "real": ["Aiken compiler + Project::build", "Project::blueprint (file → Blueprint)", "Blueprint::apply_parameter / with_validator / lookup", "Validator::apply, Parameter::validate", "SerializableProgram (de)serialisation, hash", "Project::address / policy", "uplc::tx::apply_params_to_script", "CEK machine"],
                    "simulated": ["the history of operations on the durable blueprint file", "parameter values (conforming and near-miss)", "hash epoch"],
                    "stubbed": []
                }
            }),
            assumptions: vec![
                "conformance is decided by an independent predicate over the blueprint's JSON schemas (CIP-57 reading: constructor index, exact field count, item-wise tuples, homogeneous lists, maps, opaque data)".into(),
                "storage faults on the blueprint file between steps belong to C20, not here".into(),
                "behaviour is compared on the mint handler's script context shape; evaluations that error on both sides compare equal and are counted separately".into(),
            ],
        }
    }

    fn hang_bound(&self, _tier: Tier) -> std::time::Duration {
        std::time::Duration::from_secs(300)
    }
}
