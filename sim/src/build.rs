//! C09 `sim-build`: builds are deterministic.
//!
//! The simulator owns the four things the statement quantifies over: the hash epoch (SipHash keys
//! of every std HashMap created during an operation), the order in which source files are created
//! on the run's tmpfs disk (hence discovered), the width of the thread pool, and the *history*
//! applied to one compiler instance / one code generator.
//!
//! Reference model: the same project and options compiled under a fixed reference epoch, files
//! created in sorted order, one thread, a fresh `Project` for every operation.

use crate::common::*;
use crate::driver::{Engine, EvidenceParts};
use crate::genproj;
use crate::hashseed;
use crate::project::*;
use crate::rng::Rng;
use aiken_lang::ast::Definition;
use aiken_lang::test_framework::{RunnableKind, Test};
use aiken_project::blueprint::validator::Validator;
use aiken_project::config::ProjectConfig;
use aiken_project::module::CheckedModules;
use serde::{Deserialize, Serialize};
use serde_json::{Value, json};
use std::collections::{BTreeMap, HashMap};
use std::path::Path;
use std::sync::{Arc, Mutex, OnceLock};

pub struct BuildEngine;

const PROP: &str = "C09";
const REF_EPOCH: u64 = 0x5EED_0000_0000_0001;

#[derive(Clone, Debug, Serialize, Deserialize, PartialEq)]
pub enum Op {
    /// Fresh `Project`, then build.
    FreshBuild,
    /// Fresh `Project`, then check (runs tests).
    FreshCheck,
    /// On the scenario's long-lived `Project`: build.
    Build,
    /// On the long-lived `Project`: check.
    Check,
    /// On the long-lived `Project`: the LSP pattern checkpoint → check(skip tests) → restore.
    CheckpointCompileRestore,
    /// On the long-lived `Project`: export a function (module, name).
    Export(String, String),
    /// One shared `CodeGenerator`: compile the listed jobs in this order (indices into the job
    /// list, repetitions allowed) and compare each with a fresh generator's output.
    GeneratorHistory(Vec<usize>),
}

#[derive(Clone, Debug, Serialize, Deserialize, PartialEq)]
pub struct Step {
    pub op: Op,
    /// Hash epoch in force while the operation runs.
    pub epoch: u64,
    /// rayon pool width for the operation (1 = controlled).
    pub width: usize,
}

#[derive(Clone, Debug, Serialize, Deserialize, PartialEq)]
pub struct Scenario {
    pub spec: ProjSpec,
    pub opts: Opts,
    /// Creation order of the source files on the run's disk.
    pub order: Vec<usize>,
    pub steps: Vec<Step>,
}

#[derive(Clone, Debug, Serialize, Deserialize, PartialEq, Default)]
pub struct RefObs {
    pub build: BuildObs,
    pub check: CheckObs,
    pub exports: BTreeMap<String, String>,
    pub registration: Vec<String>,
    pub compiles: bool,
}

static REF_CACHE: OnceLock<Mutex<HashMap<(u64, String), Arc<RefObs>>>> = OnceLock::new();

static ALLTYPES_OK: OnceLock<Mutex<HashMap<String, bool>>> = OnceLock::new();

/// `aiken build --all-types` overflows the stack (infinite recursion in schema generation) on
/// some acceptance projects of the unchanged tree, e.g. 023 with its public generic opaque type.
/// A crash is deterministic and therefore not C09's business, but it would kill the worker that
/// computes the reference; so the first time a worker wants all-types for an acceptance project it
/// tries it in a throw-away subprocess and falls back to the default export when that dies.
pub fn alltypes_ok(spec: &ProjSpec) -> bool {
    if !spec.id.starts_with("acceptance/") {
        return true;
    }
    let cache = ALLTYPES_OK.get_or_init(|| Mutex::new(HashMap::new()));
    if let Some(v) = cache.lock().unwrap().get(&spec.id) {
        return *v;
    }
    let ok = std::env::current_exe()
        .ok()
        .and_then(|exe| {
            std::process::Command::new(exe)
                .arg("probe-alltypes")
                .arg(&spec.id)
                .stdin(std::process::Stdio::null())
                .stdout(std::process::Stdio::null())
                .stderr(std::process::Stdio::null())
                .status()
                .ok()
        })
        .map(|st| st.code() == Some(0))
        .unwrap_or(false);
    cache.lock().unwrap().insert(spec.id.clone(), ok);
    ok
}

pub fn probe_alltypes_main(id: &str) -> i32 {
    let Some(spec) = acceptance_projects().iter().find(|p| p.id == id).cloned() else {
        return 3;
    };
    let mut opts = Opts::default_check();
    opts.all_types = true;
    let _ = with_pool(1, move || {
        let disk = RunDisk::new();
        disk.materialize(&spec, &identity_order(&spec));
        if let Ok((mut p, _)) = new_project(&disk.root) {
            let _ = do_build(&mut p, &disk.root, &opts);
        }
    });
    0
}

fn exportable(spec: &ProjSpec) -> Vec<(String, String)> {
    // Module name = path under lib/ without extension; candidates are `pub fn` names.
    let mut out = vec![];
    for (p, c) in &spec.files {
        let Some(rest) = p.strip_prefix("lib/") else {
            continue;
        };
        let module = rest.trim_end_matches(".ak").to_string();
        for line in c.lines() {
            if let Some(r) = line.strip_prefix("pub fn ") {
                if let Some(name) = r.split('(').next() {
                    out.push((module.clone(), name.trim().to_string()));
                }
            }
        }
    }
    out.truncate(6);
    out
}

fn probe_registration() -> std::rc::Rc<std::cell::RefCell<Vec<String>>> {
    let log = std::rc::Rc::new(std::cell::RefCell::new(Vec::<String>::new()));
    let l2 = log.clone();
    aiken_project::verif::set_module_probe(Some(Box::new(move |name: &str| {
        l2.borrow_mut().push(name.to_string());
    })));
    log
}

fn under_epoch<T: Send>(epoch: u64, width: usize, f: impl FnOnce() -> T + Send) -> T {
    let prev_served = hashseed::served();
    hashseed::set_epoch(epoch | 1);
    let r = with_pool(width, f);
    let _ = prev_served;
    r
}

/// Reference observables (cached per worker process for acceptance projects).
pub fn reference(spec: &ProjSpec, opts: &Opts) -> Arc<RefObs> {
    let key = (spec.hash(), opts.tag());
    let cache = REF_CACHE.get_or_init(|| Mutex::new(HashMap::new()));
    if let Some(r) = cache.lock().unwrap().get(&key) {
        return r.clone();
    }
    let spec2 = spec.clone();
    let opts2 = opts.clone();
    let obs = under_epoch(REF_EPOCH, 1, move || {
        let disk = RunDisk::new();
        disk.materialize(&spec2, &identity_order(&spec2));
        let mut r = RefObs::default();
        let reg = probe_registration();
        match new_project(&disk.root) {
            Ok((mut p, _)) => {
                r.build = do_build(&mut p, &disk.root, &opts2);
                r.compiles = r.build.ok;
            }
            Err(e) => r.build.errors = vec![e],
        }
        r.registration = reg.borrow().clone();
        aiken_project::verif::set_module_probe(None);
        if let Ok((mut p, cap)) = new_project(&disk.root) {
            r.check = do_check(&mut p, &cap, &disk.root, &opts2, false);
            for (m, f) in exportable(&spec2) {
                r.exports
                    .insert(format!("{m}.{f}"), do_export(&p, &m, &f, &opts2));
            }
        }
        r
    });
    let obs = Arc::new(obs);
    if spec.id.starts_with("acceptance/") {
        cache.lock().unwrap().insert(key, obs.clone());
    }
    obs
}

fn do_export(p: &aiken_project::Project<Capture>, module: &str, name: &str, opts: &Opts) -> String {
    match guard(|| p.export(module, name, opts.tracing())) {
        Ok(Ok(e)) => serde_json::to_string(&e).unwrap_or_else(|e| format!("<json error {e}>")),
        Ok(Err(e)) => format!("<error: {}>", short(&format!("{e}"), 200)),
        Err(p) => format!("<panic: {} @ {}>", p.message, p.site()),
    }
}

// ------------------------------------------------------------------------------------------
// Generator-history jobs

#[derive(Clone, Debug, PartialEq)]
struct JobOut {
    label: String,
    out: String,
}

/// Compile job `j` with the given generator. Jobs: every validator (all handlers), every test.
fn run_job(
    j: usize,
    modules: &CheckedModules,
    module_list: &[aiken_project::module::CheckedModule],
    config: &ProjectConfig,
    generator: &mut aiken_lang::gen_uplc::CodeGenerator<'_>,
) -> Option<JobOut> {
    let mut idx = 0usize;
    for m in module_list {
        if m.package != config.name.to_string() {
            continue;
        }
        for def in m.ast.definitions() {
            match def {
                Definition::Validator(v) if m.kind.is_validator() => {
                    if idx == j {
                        let res = Validator::from_checked_module(
                            modules,
                            generator,
                            m,
                            v,
                            &config.plutus,
                        );
                        let out = match res {
                            Ok(vs) => vs
                                .iter()
                                .map(|v| serde_json::to_string(v).unwrap_or_default())
                                .collect::<Vec<_>>()
                                .join("\n"),
                            Err(e) => format!("<error {}>", short(&format!("{e}"), 200)),
                        };
                        return Some(JobOut {
                            label: format!("validator {}.{}", m.name, v.name),
                            out,
                        });
                    }
                    idx += 1;
                }
                Definition::Test(t) => {
                    if idx == j {
                        let test = Test::from_function_definition(
                            generator,
                            t.to_owned(),
                            m.name.clone(),
                            m.input_path.clone(),
                            RunnableKind::Test,
                        );
                        let out = match &test {
                            Test::UnitTest(u) => flat_hex(&u.program),
                            Test::PropertyTest(p) => {
                                format!("{}|{}", flat_hex(&p.program), flat_hex(&p.fuzzer.program))
                            }
                            Test::Benchmark(b) => flat_hex(&b.program),
                        };
                        return Some(JobOut {
                            label: format!("test {}.{}", m.name, t.name),
                            out,
                        });
                    }
                    idx += 1;
                }
                _ => {}
            }
        }
    }
    None
}

fn count_jobs(module_list: &[aiken_project::module::CheckedModule], package: &str) -> usize {
    let mut idx = 0;
    for m in module_list {
        if m.package != package {
            continue;
        }
        for def in m.ast.definitions() {
            match def {
                Definition::Validator(_) if m.kind.is_validator() => idx += 1,
                Definition::Test(_) => idx += 1,
                _ => {}
            }
        }
    }
    idx
}

/// Returns divergences (label, shared-generator output, fresh-generator output) and the number
/// of compilations performed.
fn generator_history(
    root: &Path,
    opts: &Opts,
    history: &[usize],
) -> Result<(Vec<(String, String, String)>, usize, usize), String> {
    let (mut project, _cap) = new_project(root)?;
    let mut o = opts.clone();
    o.seed = 0;
    let res = project.check(
        true,
        None,
        false,
        false,
        0,
        1,
        aiken_project::telemetry::CoverageMode::default(),
        opts.tracing(),
        false,
        opts.env.clone(),
    );
    if res.is_err() {
        return Err("project does not type-check".into());
    }
    let mut module_list = project.modules();
    module_list.sort_by(|a, b| a.name.cmp(&b.name));
    let map: HashMap<String, aiken_project::module::CheckedModule> = module_list
        .iter()
        .map(|m| (m.name.clone(), m.clone()))
        .collect();
    let modules = CheckedModules::from(map);
    let config = ProjectConfig::load(root).map_err(|e| format!("{e}"))?;
    let n_jobs = count_jobs(&module_list, &config.name.to_string());
    if n_jobs == 0 {
        return Ok((vec![], 0, 0));
    }
    // Fresh outputs.
    let mut fresh: BTreeMap<usize, JobOut> = BTreeMap::new();
    for j in history.iter().map(|j| j % n_jobs) {
        if fresh.contains_key(&j) {
            continue;
        }
        let mut g = project.new_generator(opts.tracing());
        if let Some(out) = run_job(j, &modules, &module_list, &config, &mut g) {
            fresh.insert(j, out);
        }
    }
    // Shared generator, seeded history with repetitions.
    let mut shared = project.new_generator(opts.tracing());
    let mut divergences = vec![];
    let mut compiled = 0;
    for (pos, j) in history.iter().map(|j| j % n_jobs).enumerate() {
        let Some(out) = run_job(j, &modules, &module_list, &config, &mut shared) else {
            continue;
        };
        compiled += 1;
        if let Some(f) = fresh.get(&j) {
            if f.out != out.out {
                divergences.push((
                    format!("{} (position {pos} of the history)", out.label),
                    out.out.clone(),
                    f.out.clone(),
                ));
            }
        }
        // All handlers of one validator carry the same compiled code and hash.
        if out.label.starts_with("validator") {
            let mut codes = std::collections::BTreeSet::new();
            for line in out.out.lines() {
                if let Ok(v) = serde_json::from_str::<Value>(line) {
                    codes.insert((jstr(&v, "compiledCode"), jstr(&v, "hash")));
                }
            }
            if codes.len() > 1 {
                divergences.push((
                    format!("{}: handlers of one validator carry different code/hash", out.label),
                    format!("{} distinct (compiledCode, hash) pairs", codes.len()),
                    "1".into(),
                ));
            }
        }
    }
    Ok((divergences, compiled, n_jobs))
}

// ------------------------------------------------------------------------------------------

fn first_diff(a: &str, b: &str) -> String {
    let pos = a
        .bytes()
        .zip(b.bytes())
        .position(|(x, y)| x != y)
        .unwrap_or(a.len().min(b.len()));
    let lo = pos.saturating_sub(60);
    let ctx = |s: &str| {
        let hi = (pos + 60).min(s.len());
        let mut lo2 = lo.min(s.len());
        while !s.is_char_boundary(lo2) {
            lo2 -= 1;
        }
        let mut hi2 = hi;
        while !s.is_char_boundary(hi2) {
            hi2 -= 1;
        }
        s[lo2..hi2].to_string()
    };
    format!(
        "first difference at byte {pos} (lengths {} vs {}): …{}… vs …{}…",
        a.len(),
        b.len(),
        ctx(a),
        ctx(b)
    )
}

fn compare_build(what: &str, got: &BuildObs, want: &BuildObs) -> Vec<(String, String)> {
    let mut d = vec![];
    if got.ok != want.ok || got.errors != want.errors {
        d.push((
            format!("{what}:build-status"),
            format!(
                "ok={} errors={:?} vs reference ok={} errors={:?}",
                got.ok, got.errors, want.ok, want.errors
            ),
        ));
    }
    if got.blueprint != want.blueprint {
        d.push((
            format!("{what}:plutus.json"),
            first_diff(&got.blueprint, &want.blueprint),
        ));
    }
    if got.artifacts != want.artifacts {
        let names: Vec<&String> = got
            .artifacts
            .keys()
            .chain(want.artifacts.keys())
            .filter(|k| got.artifacts.get(*k) != want.artifacts.get(*k))
            .collect();
        d.push((
            format!("{what}:artifacts"),
            format!("differing uplc dumps: {names:?}"),
        ));
    }
    d
}

fn compare_check(what: &str, got: &CheckObs, want: &CheckObs, same_order: bool) -> Vec<(String, String)> {
    let mut d = vec![];
    let g = got.by_key();
    let w = want.by_key();
    if got.ok != want.ok || got.errors != want.errors {
        d.push((
            format!("{what}:check-status"),
            format!(
                "ok={} errors={:?} vs reference ok={} errors={:?}",
                got.ok, got.errors, want.ok, want.errors
            ),
        ));
    }
    for (k, t) in &w {
        match g.get(k) {
            None => d.push((format!("{what}:test-missing"), k.clone())),
            Some(o) => {
                let diff = o.diff(t);
                if !diff.is_empty() {
                    d.push((
                        format!("{what}:test-result:{}", diff[0].split(':').next().unwrap_or("")),
                        format!("{k}: {}", diff.join("; ")),
                    ));
                }
            }
        }
    }
    for k in g.keys() {
        if !w.contains_key(k) {
            d.push((format!("{what}:test-extra"), k.clone()));
        }
    }
    if same_order {
        let go: Vec<String> = got.tests.iter().map(|t| t.key()).collect();
        let wo: Vec<String> = want.tests.iter().map(|t| t.key()).collect();
        if go != wo {
            d.push((format!("{what}:test-order"), format!("{go:?} vs {wo:?}")));
        }
    }
    d
}

pub struct ScenarioOutcome {
    /// (artefact class, description)
    pub divergences: Vec<(String, String)>,
    pub registration_orders: Vec<Vec<String>>,
    pub ops: usize,
    pub generator_compiles: usize,
    pub reference_compiles: bool,
}

/// Execute an explicit scenario against the real tool-chain and compare with the reference.
pub fn execute_scenario(sc: &Scenario) -> Result<ScenarioOutcome, String> {
    let reference = reference(&sc.spec, &sc.opts);
    let mut out = ScenarioOutcome {
        divergences: vec![],
        registration_orders: vec![],
        ops: 0,
        generator_compiles: 0,
        reference_compiles: reference.compiles,
    };
    let disk = RunDisk::new();
    disk.materialize(&sc.spec, &sc.order);
    // The long-lived project lives on one pool thread for the whole scenario when any step needs
    // it; rayon pools are per step, so the long-lived instance is created inside a width-1 pool
    // and steps that use it run there. Steps with their own width use fresh projects.
    let root = disk.root.clone();
    let uses_instance = sc.steps.iter().any(|s| {
        matches!(
            s.op,
            Op::Build | Op::Check | Op::CheckpointCompileRestore | Op::Export(_, _)
        )
    });
    if uses_instance {
        // All instance steps run in one pool (width of the first instance step), under the epoch
        // of each step (the epoch is switched between steps; hash maps created by a step get the
        // keys of that step's epoch only on threads created after the switch, so the instance
        // scenario also rebuilds its pool per step — the instance itself must then be created on
        // the thread that uses it: rayon `install` runs on a pool thread, and `Project` is not
        // `Send`. We therefore run the whole instance history on one dedicated pool thread and
        // give every step a new epoch for the maps of *new* threads (tokio, nested pools)).
        let steps = sc.steps.clone();
        let opts = sc.opts.clone();
        let refc = reference.clone();
        let first = steps[0].clone();
        let (divs, regs, ops) = under_epoch(first.epoch, first.width, move || {
            let mut divs: Vec<(String, String)> = vec![];
            let mut regs: Vec<Vec<String>> = vec![];
            let mut ops = 0;
            let Ok((mut project, capture)) = new_project(&root) else {
                return (vec![("project-new".into(), "cannot create project".into())], regs, ops);
            };
            let mut compiled_once = false;
            for (i, step) in steps.iter().enumerate() {
                hashseed::set_epoch(step.epoch | 1);
                let reg = probe_registration();
                let what = format!("step{i}");
                let is_compile = matches!(step.op, Op::Build | Op::Check | Op::CheckpointCompileRestore);
                match &step.op {
                    // Every operation on the long-lived instance is wrapped the way the language
                    // server wraps its compilations (checkpoint → operation → restore): that is
                    // the supported way to re-use a `Project`; without the restore the second
                    // compilation reports every module as a duplicate.
                    Op::Build => {
                        let cp = project.checkpoint();
                        let b = do_build(&mut project, &root, &opts);
                        project.restore(cp);
                        divs.extend(compare_build(&format!("{what}:instance-build"), &b, &refc.build));
                    }
                    Op::Check => {
                        let cp = project.checkpoint();
                        let c = do_check(&mut project, &capture, &root, &opts, false);
                        project.restore(cp);
                        divs.extend(compare_check(&format!("{what}:instance-check"), &c, &refc.check, false));
                    }
                    Op::CheckpointCompileRestore => {
                        let cp = project.checkpoint();
                        let _ = do_check(&mut project, &capture, &root, &opts, true);
                        project.restore(cp);
                    }
                    // Exporting needs type-checked modules: meaningful only after a compilation.
                    Op::Export(_, _) if !compiled_once => {}
                    Op::Export(m, f) => {
                        let e = do_export(&project, m, f, &opts);
                        if let Some(want) = refc.exports.get(&format!("{m}.{f}")) {
                            if &e != want {
                                divs.push((
                                    format!("{what}:export"),
                                    format!("{m}.{f}: {}", first_diff(&e, want)),
                                ));
                            }
                        }
                    }
                    Op::FreshBuild => {
                        if let Ok((mut p, _)) = new_project(&root) {
                            let b = do_build(&mut p, &root, &opts);
                            divs.extend(compare_build(&format!("{what}:fresh-build"), &b, &refc.build));
                        }
                    }
                    Op::FreshCheck => {
                        if let Ok((mut p, cap)) = new_project(&root) {
                            let c = do_check(&mut p, &cap, &root, &opts, false);
                            divs.extend(compare_check(&format!("{what}:fresh-check"), &c, &refc.check, false));
                        }
                    }
                    Op::GeneratorHistory(_) => {}
                }
                compiled_once |= is_compile;
                ops += 1;
                regs.push(reg.borrow().clone());
                aiken_project::verif::set_module_probe(None);
            }
            (divs, regs, ops)
        });
        out.divergences.extend(divs);
        out.registration_orders.extend(regs);
        out.ops += ops;
    } else {
        for (i, step) in sc.steps.iter().enumerate() {
            let root = disk.root.clone();
            let opts = sc.opts.clone();
            let refc = reference.clone();
            let op = step.op.clone();
            let what = format!("step{i}");
            let (divs, reg, compiles) = under_epoch(step.epoch, step.width, move || {
                let mut divs: Vec<(String, String)> = vec![];
                let reg = probe_registration();
                let mut compiles = 0;
                match &op {
                    Op::FreshBuild => match new_project(&root) {
                        Ok((mut p, _)) => {
                            let b = do_build(&mut p, &root, &opts);
                            divs.extend(compare_build(&format!("{what}:build"), &b, &refc.build));
                        }
                        Err(e) => divs.push(("project-new".into(), e)),
                    },
                    Op::FreshCheck => match new_project(&root) {
                        Ok((mut p, cap)) => {
                            let c = do_check(&mut p, &cap, &root, &opts, false);
                            divs.extend(compare_check(&format!("{what}:check"), &c, &refc.check, false));
                            // `aiken export` of every exportable function, on the checked project
                            for (key, want) in refc.exports.iter() {
                                if let Some((m, f)) = key.rsplit_once('.') {
                                    let e = do_export(&p, m, f, &opts);
                                    if &e != want {
                                        divs.push((
                                            format!("{what}:export"),
                                            format!("{key}: {}", first_diff(&e, want)),
                                        ));
                                    }
                                }
                            }
                        }
                        Err(e) => divs.push(("project-new".into(), e)),
                    },
                    Op::GeneratorHistory(h) => {
                        if refc.compiles || refc.check.errors.iter().all(|e| e.contains("failed")) {
                            match generator_history(&root, &opts, h) {
                                Ok((d, compiled, _n)) => {
                                    compiles = compiled;
                                    for (label, got, want) in d {
                                        divs.push((
                                            format!("{what}:generator-history"),
                                            format!("{label}: {}", first_diff(&got, &want)),
                                        ));
                                    }
                                }
                                Err(_) => {}
                            }
                        }
                    }
                    _ => {}
                }
                let r = reg.borrow().clone();
                aiken_project::verif::set_module_probe(None);
                (divs, r, compiles)
            });
            out.divergences.extend(divs);
            out.registration_orders.push(reg);
            out.generator_compiles += compiles;
            out.ops += 1;
        }
    }
    hashseed::clear_epoch();
    Ok(out)
}

fn gen_scenario(rng: &mut Rng, spec: ProjSpec, k: u64) -> Scenario {
    let mut opts = Opts::default_check();
    opts.trace_level = rng.below(3) as u8;
    opts.trace_scope = rng.below(3) as u8;
    opts.all_types = rng.chance(1, 2);
    if opts.all_types && !alltypes_ok(&spec) {
        opts.all_types = false;
    }
    opts.uplc_dump = rng.chance(1, 3);
    opts.max_success = 12;
    let mut order = identity_order(&spec);
    if rng.chance(3, 4) {
        rng.shuffle(&mut order);
    }
    let e = |rng: &mut Rng| rng.next_u64() | 1;
    let widths = [1usize, 1, 2, 3, 8, 16];
    let kind = rng.below(10);
    let exports = exportable(&spec);
    let steps = match kind {
        0..=3 => {
            // epoch / order / width
            let w = *rng.pick(&widths);
            vec![
                Step { op: Op::FreshBuild, epoch: e(rng), width: w },
                Step { op: Op::FreshCheck, epoch: e(rng), width: w },
            ]
        }
        4..=6 => {
            // instance history
            let mut steps = vec![];
            let n = 2 + rng.usize_below(4);
            for _ in 0..n {
                let op = match rng.below(6) {
                    0 | 1 => Op::Build,
                    2 => Op::Check,
                    3 => Op::CheckpointCompileRestore,
                    4 if !exports.is_empty() => {
                        let (m, f) = rng.pick(&exports).clone();
                        Op::Export(m, f)
                    }
                    _ => Op::Build,
                };
                steps.push(Step { op, epoch: e(rng), width: 1 });
            }
            // always end with a build so the history's effect is observed
            steps.push(Step { op: Op::Build, epoch: e(rng), width: 1 });
            steps
        }
        _ => {
            // generator history
            let n = 4 + rng.usize_below(10);
            let h: Vec<usize> = (0..n).map(|_| rng.usize_below(64)).collect();
            // force at least one repetition A, B, A
            let mut h = h;
            let a = h[0];
            h.push(a);
            vec![Step { op: Op::GeneratorHistory(h), epoch: e(rng), width: 1 }]
        }
    };
    let _ = k;
    Scenario {
        spec,
        opts,
        order,
        steps,
    }
}

fn scenario_kind(sc: &Scenario) -> &'static str {
    match sc.steps.first().map(|s| &s.op) {
        Some(Op::FreshBuild) | Some(Op::FreshCheck) => "epoch-order-width",
        Some(Op::GeneratorHistory(_)) => "generator-history",
        _ => "instance-history",
    }
}

fn report(ctx: &mut RunCtx, sc: &Scenario, outcome: &ScenarioOutcome, minimised: bool) {
    // One violation per artefact class.
    let mut seen = std::collections::BTreeSet::new();
    let proj = if sc.spec.id.starts_with("acceptance/") {
        sc.spec.id.clone()
    } else {
        "generated".to_string()
    };
    for (class, desc) in &outcome.divergences {
        // strip the step index for the signature
        let artefact = class.split(':').skip(1).collect::<Vec<_>>().join(":");
        if !seen.insert(artefact.clone()) {
            continue;
        }
        let widths: Vec<usize> = sc.steps.iter().map(|s| s.width).collect();
        let controlled = widths.iter().all(|w| *w == 1);
        ctx.violation(
            PROP,
            &format!("divergence:{artefact}"),
            format!("divergence|{}|{artefact}|{proj}", scenario_kind(sc)),
            format!(
                "project {} options {}: {} differs from the reference (fixed epoch, sorted creation order, one thread, fresh compiler per operation). {}\nscenario: {} steps {:?}, creation order {:?}, widths {:?}{}{}",
                sc.spec.id,
                sc.opts.tag(),
                class,
                desc,
                scenario_kind(sc),
                sc.steps.iter().map(|s| format!("{:?}@{:x}", s.op, s.epoch & 0xffff)).collect::<Vec<_>>(),
                sc.order,
                widths,
                if controlled { "" } else { " [uncontrolled rayon schedule: deterministic_replay=false]" },
                if minimised { " [minimised]" } else { "" },
            ),
            json!({ "scenario": sc, "deterministic_replay": controlled }),
        );
    }
}

/// Delta-debug the scenario while some divergence persists: fewer steps, identity order, width 1.
fn minimise(sc: &Scenario) -> Scenario {
    let diverges = |s: &Scenario| {
        execute_scenario(s)
            .map(|o| !o.divergences.is_empty())
            .unwrap_or(false)
    };
    let mut best = sc.clone();
    // width → 1
    if best.steps.iter().any(|s| s.width != 1) {
        let mut c = best.clone();
        for s in c.steps.iter_mut() {
            s.width = 1;
        }
        if diverges(&c) {
            best = c;
        }
    }
    // order → identity
    let id = identity_order(&best.spec);
    if best.order != id {
        let mut c = best.clone();
        c.order = id;
        if diverges(&c) {
            best = c;
        }
    }
    // drop steps (never the last one)
    let mut i = 0;
    while best.steps.len() > 1 && i + 1 < best.steps.len() {
        let mut c = best.clone();
        c.steps.remove(i);
        if diverges(&c) {
            best = c;
        } else {
            i += 1;
        }
    }
    // shorten a generator history
    if let Some(Step { op: Op::GeneratorHistory(h), epoch, width }) = best.steps.first().cloned() {
        let mut h = h;
        let mut i = 0;
        while h.len() > 1 && i < h.len() {
            let mut h2 = h.clone();
            h2.remove(i);
            let mut c = best.clone();
            c.steps[0] = Step { op: Op::GeneratorHistory(h2.clone()), epoch, width };
            if diverges(&c) {
                h = h2;
                best = c;
            } else {
                i += 1;
            }
        }
    }
    best
}

impl Engine for BuildEngine {
    fn property(&self) -> &'static str {
        PROP
    }
    fn name(&self) -> &'static str {
        "sim-build"
    }
    fn engine_id(&self) -> u64 {
        9
    }
    fn runs(&self, tier: Tier) -> u64 {
        match tier {
            Tier::Quick => 420,
            Tier::Thorough => 9000,
        }
    }
    fn selfcheck_runs(&self, tier: Tier) -> u64 {
        match tier {
            Tier::Quick => 12,
            Tier::Thorough => 48,
        }
    }

    fn run(&self, ctx: &mut RunCtx) {
        let acc = acceptance_projects();
        if acc.len() < 50 {
            ctx.harness_error(format!("only {} acceptance projects found", acc.len()));
            return;
        }
        // Acceptance projects are visited in order for the first pass, then drawn at random;
        // every other run uses a freshly generated multi-module project.
        let spec = if ctx.k % 2 == 0 {
            let g = genproj::generate(&mut ctx.rng);
            ctx.stats.inc("projects_generated", 1);
            g.spec
        } else {
            let i = ((ctx.k / 2) as usize) % acc.len();
            ctx.stats.inc("projects_acceptance", 1);
            acc[i].clone()
        };
        // One generated project in ten carries two files that map to ONE module name
        // (`x-y.ak` and `x_y.ak`): the build must be refused identically whatever the thread
        // count and discovery order.
        let spec = if spec.id.starts_with("generated/") && ctx.rng.chance(1, 10) {
            let mut spec = spec;
            spec.files.push(("lib/dup-mod.ak".into(), "pub const one = 1\n".into()));
            spec.files.push(("lib/dup_mod.ak".into(), "pub const two = 2\n".into()));
            spec.files.sort();
            ctx.stats.inc("projects_with_clashing_module_names", 1);
            spec
        } else {
            spec
        };
        let sc = gen_scenario(&mut ctx.rng, spec, ctx.k);
        ctx.event(&format!(
            "scenario {} {} {} order={:?} steps={:?}",
            sc.spec.id,
            sc.opts.tag(),
            scenario_kind(&sc),
            sc.order,
            sc.steps
        ));
        let outcome = match guard(|| execute_scenario(&sc)) {
            Ok(Ok(o)) => o,
            Ok(Err(e)) => {
                ctx.harness_error(format!("scenario failed to execute: {e}"));
                return;
            }
            Err(p) => {
                // A panic in a scenario whose reference compiled is a divergence (the reference
                // did not panic); otherwise it is outside C09.
                ctx.stats.inc("scenario_panics", 1);
                ctx.violation(
                    PROP,
                    "divergence:panic",
                    format!("divergence|{}|panic@{}", scenario_kind(&sc), p.site()),
                    format!(
                        "project {}: scenario panicked ({} @ {}) while the reference configuration did not",
                        sc.spec.id, p.message, p.location
                    ),
                    json!({ "scenario": sc, "deterministic_replay": sc.steps.iter().all(|s| s.width == 1) }),
                );
                return;
            }
        };
        ctx.logical_steps += outcome.ops as u64;
        if sc.spec.id.starts_with("acceptance/") {
            // For the cross-process history check: the reference observables of one (project,
            // options) pair must have one digest whichever worker process computed them.
            let r = reference(&sc.spec, &sc.opts);
            ctx.stats.note(
                "reference_digests",
                &format!(
                    "{}|{}|{:016x}",
                    sc.spec.id,
                    sc.opts.tag(),
                    crate::rng::mix(r.build.digest(), r.check.digest_unordered(), hash_str(&format!("{:?}", r.exports)))
                ),
            );
        }
        ctx.stats.inc("evaluations", outcome.ops as u64 + outcome.generator_compiles as u64);
        ctx.stats.inc(&format!("scenario_{}", scenario_kind(&sc)), 1);
        ctx.stats.inc("generator_history_compiles", outcome.generator_compiles as u64);
        if outcome.reference_compiles {
            ctx.stats.inc("reference_compiles", 1);
        } else {
            ctx.stats.inc("reference_does_not_build", 1);
        }
        let mut orders = std::collections::BTreeSet::new();
        for r in &outcome.registration_orders {
            if r.len() > 1 {
                orders.insert(hash_str(&format!("{}|{:?}", sc.spec.id, r)));
            }
        }
        for o in &orders {
            ctx.stats.add("registration_orders", *o);
        }
        for s in &sc.steps {
            ctx.stats.add("hash_epochs", s.epoch);
            ctx.stats.inc(&format!("width_{}", s.width), 1);
        }
        ctx.stats.add("creation_orders", hash_str(&format!("{}{:?}", sc.spec.id, sc.order)));
        let nontrivial = sc.spec.files.len() > 1;
        if nontrivial {
            ctx.stats.add(
                "scenarios_nontrivial",
                hash_str(&serde_json::to_string(&(&sc.spec.id, &sc.opts, &sc.order, &sc.steps)).unwrap()),
            );
        } else {
            ctx.stats.inc("scenarios_single_module", 1);
        }
        // Registration orders reached under a real (uncontrolled) rayon schedule are not part of
        // the deterministic event log.
        let controlled = sc.steps.iter().all(|s| s.width == 1);
        ctx.event(&format!(
            "outcome ops={} divergences={} reg={:?}",
            outcome.ops,
            outcome.divergences.len(),
            if controlled { outcome.registration_orders.clone() } else { vec![] }
        ));
        if !outcome.divergences.is_empty() {
            let min = minimise(&sc);
            match execute_scenario(&min) {
                Ok(o) if !o.divergences.is_empty() => report(ctx, &min, &o, true),
                _ => report(ctx, &sc, &outcome, false),
            }
        }
        if ctx.k % 41 == 0 {
            ctx.stats.sample(json!({
                "project": sc.spec.id,
                "files": sc.spec.files.iter().map(|(p, _)| p.clone()).collect::<Vec<_>>(),
                "options": sc.opts.tag(),
                "creation_order": sc.order,
                "steps": sc.steps.iter().map(|s| format!("{:?} epoch={:x} width={}", s.op, s.epoch, s.width)).collect::<Vec<_>>(),
                "registration_orders_seen": outcome.registration_orders,
            }));
        }
    }

    fn replay(&self, trace: &Value, ctx: &mut RunCtx) {
        let Some(sc) = trace
            .get("scenario")
            .and_then(|s| serde_json::from_value::<Scenario>(s.clone()).ok())
        else {
            ctx.harness_error("replay: no scenario".into());
            return;
        };
        let deterministic = trace
            .get("deterministic_replay")
            .and_then(|b| b.as_bool())
            .unwrap_or(true);
        let attempts = if deterministic { 1 } else { 40 };
        for _ in 0..attempts {
            match guard(|| execute_scenario(&sc)) {
                Ok(Ok(o)) => {
                    if !o.divergences.is_empty() {
                        report(ctx, &sc, &o, false);
                        return;
                    }
                }
                Ok(Err(e)) => {
                    ctx.harness_error(e);
                    return;
                }
                Err(p) => {
                    ctx.violation(
                        PROP,
                        "divergence:panic",
                        format!("divergence|{}|panic@{}", scenario_kind(&sc), p.site()),
                        format!("scenario panicked: {} @ {}", p.message, p.location),
                        trace.clone(),
                    );
                    return;
                }
            }
        }
    }

    fn evidence(&self, stats: &Stats, _tier: Tier) -> EvidenceParts {
        EvidenceParts {
            level: "exploration",
            evaluations: stats.get("evaluations"),
            distinct_nontrivial: stats.distinct("scenarios_nontrivial"),
            rule: "one run = one project (alternating: freshly generated 8-12 module project / acceptance project in order) × seeded options (trace level × scope, all-types, uplc dump) × seeded creation order × one scenario: {fresh build + fresh check under new hash epochs at pool width 1/2/3/8/16 | history of build/check/checkpoint-restore/export on ONE Project, then build | seeded history with repetitions on ONE CodeGenerator vs fresh generators}; every observable (plutus.json bytes, uplc dumps, export JSON, per test: flat program, fuzzer, verdict, budget, logs, iterations, labels, counterexample, assertion) compared with the reference; distinct = distinct (project, options, order, steps); non-trivial = project has more than one module (single-module projects cannot vary registration order)".into(),
            extra: json!({
                "fault_and_schedule_kinds": {
                    "hash_epochs_distinct": stats.distinct("hash_epochs"),
                    "creation_orders_distinct": stats.distinct("creation_orders"),
                    "module_registration_orders_reached_distinct": stats.distinct("registration_orders"),
                    "pool_width_1_steps": stats.get("width_1"),
                    "pool_width_2_steps": stats.get("width_2"),
                    "pool_width_3_steps": stats.get("width_3"),
                    "pool_width_8_steps": stats.get("width_8"),
                    "pool_width_16_steps": stats.get("width_16"),
                    "scenarios_epoch_order_width": stats.get("scenario_epoch-order-width"),
                    "scenarios_instance_history": stats.get("scenario_instance-history"),
                    "scenarios_generator_history": stats.get("scenario_generator-history"),
                    "generator_history_compilations": stats.get("generator_history_compiles"),
                },
                "projects": {
                    "generated": stats.get("projects_generated"),
                    "acceptance": stats.get("projects_acceptance"),
                    "single_module_scenarios_counted_trivial": stats.get("scenarios_single_module"),
                    "reference_does_not_build": stats.get("reference_does_not_build"),
                },
                "components": {
                    "real": ["aiken-project (Project::new/build/check/export/checkpoint/restore, Blueprint, walkdir + fs on tmpfs, rayon parse/fold/reduce)", "aiken-lang (parser, type checker, CodeGenerator, test framework)", "uplc (optimiser, flat, CEK)"],
                    "simulated": ["hash epoch of every std HashMap (getrandom seam)", "file creation / discovery order (tmpfs)", "thread-pool width", "history applied to a compiler instance / code generator"],
                    "stubbed": ["package download: projects have no dependencies, so deps::download resolves an empty manifest locally"]
                }
            }),
            assumptions: vec![
                "steps at pool width > 1 use rayon's real work-stealing scheduler: their oracle (equality with the one-thread reference) cannot false-alarm, but a divergence found there is re-derived under width 1 by the minimiser when possible and flagged deterministic_replay=false otherwise".into(),
                "hash keys are controlled through the C library's getrandom (std RandomState); maps with other hashers (indexmap default is also RandomState) are covered, a hasher seeded from elsewhere would not be".into(),
                "test order within a run is compared only between runs with the same hash epoch (it legitimately follows checked_modules iteration)".into(),
            ],
        }
    }

    fn history_check(&self, stats: &Stats) -> Vec<Violation> {
        let mut by_key: BTreeMap<String, Vec<String>> = BTreeMap::new();
        if let Some(set) = stats.notes.get("reference_digests") {
            for entry in set {
                if let Some((key, digest)) = entry.rsplit_once('|') {
                    by_key.entry(key.to_string()).or_default().push(digest.to_string());
                }
            }
        }
        let mut out = vec![];
        for (key, digests) in by_key {
            if digests.len() > 1 {
                out.push(Violation {
                    property: PROP.to_string(),
                    class: "divergence:across-processes".into(),
                    signature: format!("divergence|across-processes|{}", key.split('|').next().unwrap_or("")),
                    detail: format!(
                        "reference build of {key} (fixed hash epoch, sorted creation order, one thread) gave {} different digests in different worker processes: {digests:?}",
                        digests.len()
                    ),
                    trace: json!({ "rerun": { "k": 0, "seed": 0, "tier": "quick" }, "note": "cross-process history check; re-run the batch" }),
                    seed_k: 0,
                    k: 0,
                });
            }
        }
        out
    }

    fn hang_bound(&self, _tier: Tier) -> std::time::Duration {
        std::time::Duration::from_secs(600)
    }
}
