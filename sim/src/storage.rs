//! C20 `sim-storage` (storage-fault subset): malformed input is rejected with an error, not a
//! crash.
//!
//! Every decoder entry point reads an artefact that the tool-chain itself (or a peer tool) wrote to
//! disk: plutus.json, *.uplc, flat / CBOR / hex scripts, .ak sources, aiken.toml, parameter CBOR.
//! The failure model is "what was written is not what is read": truncated, torn between two
//! genuine versions, bit-flipped, a zeroed / duplicated / deleted / swapped block, appended
//! garbage. Producers and consumers are the real code; the simulator owns the bytes at rest.
//!
//! Oracle: the consumer returns Ok or Err. Violations: panic (caught, with location), process
//! abort / stack overflow on an 8 MiB stack (the worker dies; the driver attributes it), no return
//! within the wall bound. A value that comes back Ok is passed once through the next consumer in
//! the tool chain under the same oracle.

use crate::common::*;
use crate::driver::{Engine, EvidenceParts};
use crate::genproj;
use crate::hashseed;
use crate::project::*;
use crate::rng::Rng;
use aiken_lang::ast::ModuleKind;
use aiken_project::Project;
use aiken_project::config::ProjectConfig;
use serde::{Deserialize, Serialize};
use serde_json::{Value, json};
use std::sync::OnceLock;
use uplc::ast::{DeBruijn, FakeNamedDeBruijn, Name, NamedDeBruijn, Program};

pub struct StorageEngine;

const PROP: &str = "C20";
/// The stack `aiken` itself runs on.
const CONSUMER_STACK: usize = 8 << 20;

#[derive(Clone, Copy, Debug, PartialEq, Eq, Serialize, Deserialize, PartialOrd, Ord)]
pub enum Kind {
    Blueprint,
    Flat,
    Cbor,
    Hex,
    UplcText,
    AikenLib,
    AikenValidator,
    Toml,
    DataCbor,
}

impl Kind {
    fn is_text(&self) -> bool {
        matches!(
            self,
            Kind::Blueprint
                | Kind::Hex
                | Kind::UplcText
                | Kind::AikenLib
                | Kind::AikenValidator
                | Kind::Toml
        )
    }
    fn tag(&self) -> &'static str {
        match self {
            Kind::Blueprint => "plutus.json",
            Kind::Flat => "flat",
            Kind::Cbor => "cbor",
            Kind::Hex => "hex",
            Kind::UplcText => "uplc-text",
            Kind::AikenLib => "ak-lib",
            Kind::AikenValidator => "ak-validator",
            Kind::Toml => "aiken.toml",
            Kind::DataCbor => "data-cbor",
        }
    }
}

#[derive(Clone, Debug)]
pub struct Artefact {
    pub kind: Kind,
    pub id: String,
    pub bytes: Vec<u8>,
    /// Another genuine version of the same artefact (for torn writes).
    pub alt: Option<Vec<u8>>,
    /// Byte ranges worth biasing faults towards (e.g. compiledCode values inside JSON).
    pub hot: Vec<(usize, usize)>,
}

#[derive(Clone, Debug, Serialize, Deserialize, PartialEq)]
pub enum Fault {
    Truncate(usize),
    FlipBit(usize),
    SetByte(usize, u8),
    ZeroRange(usize, usize),
    DupRange(usize, usize),
    DelRange(usize, usize),
    SwapBlocks(usize, usize, usize),
    Append(Vec<u8>),
    /// First `k` bytes from the other version, the rest from this one.
    Torn(usize),
    /// Line-granular block faults (text artefacts): a block of whole lines written twice, lost, or
    /// landing in the wrong place.
    DupLines(usize, usize),
    DelLines(usize, usize),
    MoveLines(usize, usize, usize),
    /// One character of a text artefact comes back as a multi-byte character (a re-encoding
    /// accident: U+FFFD written for an unreadable byte, a smart quote, an accented letter): the
    /// text stays valid UTF-8 but byte offsets no longer equal character offsets.
    WideChar(usize, u8),
}

const WIDE: [&str; 6] = ["\u{FFFD}", "é", "€", "𝄞", "éé", "’"];

impl Fault {
    fn kind(&self) -> &'static str {
        match self {
            Fault::Truncate(_) => "truncate",
            Fault::FlipBit(_) => "bit-flip",
            Fault::SetByte(_, _) => "byte-stuck",
            Fault::ZeroRange(_, _) => "zeroed-range",
            Fault::DupRange(_, _) => "duplicated-range",
            Fault::DelRange(_, _) => "deleted-range",
            Fault::SwapBlocks(_, _, _) => "swapped-blocks",
            Fault::Append(_) => "appended-garbage",
            Fault::Torn(_) => "torn-write",
            Fault::DupLines(_, _) => "duplicated-lines",
            Fault::DelLines(_, _) => "deleted-lines",
            Fault::MoveLines(_, _, _) => "moved-lines",
            Fault::WideChar(_, _) => "wide-character",
        }
    }
}

pub fn apply_fault(bytes: &[u8], alt: Option<&[u8]>, f: &Fault) -> Vec<u8> {
    let n = bytes.len();
    let mut v = bytes.to_vec();
    match f {
        Fault::Truncate(k) => v.truncate((*k).min(n)),
        Fault::FlipBit(b) => {
            if n > 0 {
                let i = (b / 8) % n;
                v[i] ^= 1 << (b % 8);
            }
        }
        Fault::SetByte(i, x) => {
            if n > 0 {
                v[i % n] = *x;
            }
        }
        Fault::ZeroRange(a, l) => {
            if n > 0 {
                let a = a % n;
                let e = (a + l).min(n);
                for b in &mut v[a..e] {
                    *b = 0;
                }
            }
        }
        Fault::DupRange(a, l) => {
            if n > 0 {
                let a = a % n;
                let e = (a + l).min(n);
                let chunk = v[a..e].to_vec();
                let mut out = v[..e].to_vec();
                out.extend(chunk);
                out.extend(&v[e..]);
                v = out;
            }
        }
        Fault::DelRange(a, l) => {
            if n > 0 {
                let a = a % n;
                let e = (a + l).min(n);
                v.drain(a..e);
            }
        }
        Fault::SwapBlocks(a, b, l) => {
            if n > 1 {
                let l = (*l).max(1);
                let a = a % n;
                let b = b % n;
                let (a, b) = if a <= b { (a, b) } else { (b, a) };
                let l = l.min(b - a).min(n - b);
                for i in 0..l {
                    v.swap(a + i, b + i);
                }
            }
        }
        Fault::Append(g) => v.extend(g),
        Fault::WideChar(at, which) => {
            if n > 0 {
                let wide = WIDE[*which as usize % WIDE.len()].as_bytes();
                let mut a = at % n;
                // the whole character at that position (valid UTF-8 stays valid)
                while a > 0 && (v[a] & 0xC0) == 0x80 {
                    a -= 1;
                }
                let mut e = a + 1;
                while e < n && (v[e] & 0xC0) == 0x80 {
                    e += 1;
                }
                v.splice(a..e, wide.iter().copied());
            }
        }
        Fault::DupLines(a, l) | Fault::DelLines(a, l) | Fault::MoveLines(a, l, _) => {
            // split keeping the terminators
            let mut lines: Vec<&[u8]> = bytes.split_inclusive(|b| *b == b'\n').collect();
            if !lines.is_empty() {
                let a = a % lines.len();
                let e = (a + (*l).max(1)).min(lines.len());
                match f {
                    Fault::DupLines(_, _) => {
                        let block: Vec<&[u8]> = lines[a..e].to_vec();
                        for (i, b) in block.into_iter().enumerate() {
                            lines.insert(e + i, b);
                        }
                    }
                    Fault::DelLines(_, _) => {
                        lines.drain(a..e);
                    }
                    Fault::MoveLines(_, _, to) => {
                        let block: Vec<&[u8]> = lines.drain(a..e).collect();
                        let to = if lines.is_empty() { 0 } else { to % (lines.len() + 1) };
                        for (i, b) in block.into_iter().enumerate() {
                            lines.insert(to + i, b);
                        }
                    }
                    _ => {}
                }
                v = lines.concat();
            }
        }
        Fault::Torn(k) => {
            if let Some(alt) = alt {
                let k = (*k).min(alt.len());
                let mut out = alt[..k].to_vec();
                if k < n {
                    out.extend(&v[k..]);
                }
                v = out;
            }
        }
    }
    v
}

// ------------------------------------------------------------------------------------------
// Artefact corpus (producers: the real tool-chain)

static CORPUS: OnceLock<Vec<Artefact>> = OnceLock::new();

fn hot_ranges(json: &str, key: &str) -> Vec<(usize, usize)> {
    let mut out = vec![];
    let needle = format!("\"{key}\": \"");
    let mut from = 0;
    while let Some(i) = json[from..].find(&needle) {
        let start = from + i + needle.len();
        if let Some(len) = json[start..].find('"') {
            out.push((start, start + len));
            from = start + len;
        } else {
            break;
        }
    }
    out
}

fn build_blueprints(seed: u64) -> Vec<(String, String, String)> {
    // (project id, blueprint built silent, blueprint built verbose)
    let mut out = vec![];
    for i in 0..3u64 {
        let mut rng = Rng::new(seed ^ (i * 7919 + 13));
        let spec = genproj::generate(&mut rng).spec;
        let id = spec.id.clone();
        hashseed::set_epoch(0x5707_0001 + i);
        let r = with_pool(1, move || {
            let disk = RunDisk::new();
            disk.materialize(&spec, &identity_order(&spec));
            let mut versions = vec![];
            for lvl in [0u8, 2u8] {
                let mut opts = Opts::default_check();
                opts.trace_level = lvl;
                opts.all_types = lvl == 2;
                if let Ok((mut p, _)) = new_project(&disk.root) {
                    versions.push(do_build(&mut p, &disk.root, &opts).blueprint);
                }
            }
            versions
        });
        hashseed::clear_epoch();
        if r.len() == 2 && !r[0].is_empty() && !r[1].is_empty() {
            out.push((id, r[0].clone(), r[1].clone()));
        }
    }
    out
}

pub fn corpus() -> &'static Vec<Artefact> {
    CORPUS.get_or_init(|| {
        let mut arts: Vec<Artefact> = vec![];
        // --- blueprints and everything derived from their compiled code
        for (id, a, b) in build_blueprints(0xC20) {
            let mut hot = hot_ranges(&a, "compiledCode");
            hot.extend(hot_ranges(&a, "hash"));
            hot.extend(hot_ranges(&a, "$ref"));
            arts.push(Artefact {
                kind: Kind::Blueprint,
                id: format!("{id}/plutus.json"),
                bytes: a.clone().into_bytes(),
                alt: Some(b.clone().into_bytes()),
                hot,
            });
            let codes_a = hot_ranges(&a, "compiledCode");
            let codes_b = hot_ranges(&b, "compiledCode");
            let mut seen = std::collections::BTreeSet::new();
            for (n, (s, e)) in codes_a.iter().enumerate() {
                let hexs = &a[*s..*e];
                if !seen.insert(hexs.to_string()) || seen.len() > 3 {
                    continue;
                }
                let alt_hex = codes_b.get(n).map(|(s, e)| b[*s..*e].to_string());
                arts.push(Artefact {
                    kind: Kind::Hex,
                    id: format!("{id}/validator{n}.hex"),
                    bytes: hexs.as_bytes().to_vec(),
                    alt: alt_hex.clone().map(|h| h.into_bytes()),
                    hot: vec![],
                });
                let Ok(cbor) = hex::decode(hexs) else { continue };
                let alt_cbor = alt_hex.and_then(|h| hex::decode(h).ok());
                arts.push(Artefact {
                    kind: Kind::Cbor,
                    id: format!("{id}/validator{n}.cbor"),
                    bytes: cbor.clone(),
                    alt: alt_cbor.clone(),
                    hot: vec![(0, 8.min(cbor.len()))],
                });
                let mut buf = vec![];
                if let Ok(p) = Program::<DeBruijn>::from_cbor(&cbor, &mut buf) {
                    if let Ok(flat) = p.to_flat() {
                        arts.push(Artefact {
                            kind: Kind::Flat,
                            id: format!("{id}/validator{n}.flat"),
                            bytes: flat,
                            alt: None,
                            hot: vec![],
                        });
                    }
                    if let Ok(named) = Program::<Name>::try_from(p) {
                        arts.push(Artefact {
                            kind: Kind::UplcText,
                            id: format!("{id}/validator{n}.uplc"),
                            bytes: named.to_pretty().into_bytes(),
                            alt: None,
                            hot: vec![],
                        });
                    }
                }
            }
        }
        // --- small programs of the conformance corpus: text, and their flat / cbor / hex forms
        let conf = crate::budget::corpus();
        for (i, p) in conf.programs.iter().enumerate() {
            // every 23rd program, plus a denser sample of those whose text exercises the richer
            // parts of the grammar (strings with escapes, data, lists / pairs, BLS elements)
            let rich = ["con string", "con data", "con (list", "con (pair", "bls12_381", "(constr", "(case"]
                .iter()
                .any(|k| p.code.contains(k));
            if !(i % 23 == 0 || (rich && i % 5 == 0)) {
                continue;
            }
            arts.push(Artefact {
                kind: Kind::UplcText,
                id: format!("conformance/{}", p.id),
                bytes: p.code.clone().into_bytes(),
                alt: None,
                hot: vec![],
            });
            if let Ok(Ok(prog)) = guard(|| uplc::parser::program(&p.code)) {
                if let Ok(db) = prog.to_debruijn() {
                    if let (Ok(flat), Ok(cbor), Ok(hexs)) = (db.to_flat(), db.to_cbor(), db.to_hex()) {
                        if i % 46 == 0 {
                            arts.push(Artefact { kind: Kind::Flat, id: format!("conformance/{}.flat", p.id), bytes: flat, alt: None, hot: vec![] });
                            arts.push(Artefact { kind: Kind::Cbor, id: format!("conformance/{}.cbor", p.id), bytes: cbor, alt: None, hot: vec![] });
                            arts.push(Artefact { kind: Kind::Hex, id: format!("conformance/{}.hex", p.id), bytes: hexs.into_bytes(), alt: None, hot: vec![] });
                        }
                    }
                }
            }
        }
        // --- UPLC text whose string constants carry escapes: the printer writes every non-ASCII
        // byte as `\xNN`, so a saved program with an accented message looks like this
        for (i, body) in [
            r#"[ (builtin appendString) (con string "caf\xc3\xa9 \xe2\x82\xac10 \xf0\x9f\x98\x80") (con string "tab\there \"quoted\" back\\slash\n") ]"#,
            r#"(con (list string) ["\xc3\xa9", "a\x41b", "\xe2\x82\xac"])"#,
            r#"(con (pair string bytestring) ("na\xc3\xafve", #c3a9))"#,
        ]
        .iter()
        .enumerate()
        {
            let code = format!("(program 1.1.0 {body})");
            arts.push(Artefact { kind: Kind::UplcText, id: format!("escapes/{i}.uplc"), bytes: code.clone().into_bytes(), alt: None, hot: vec![] });
            // and the same program as the tool-chain prints it
            if let Ok(Ok(p)) = guard(|| uplc::parser::program(&code)) {
                arts.push(Artefact { kind: Kind::UplcText, id: format!("escapes/{i}.printed.uplc"), bytes: p.to_pretty().into_bytes(), alt: None, hot: vec![] });
            }
        }
        // --- Aiken sources and manifests shipped in the tree
        let acc = acceptance_projects();
        for (i, proj) in acc.iter().enumerate() {
            if i % 3 == 0 {
                for (path, code) in proj.files.iter().take(2) {
                    arts.push(Artefact {
                        kind: if path.starts_with("validators") { Kind::AikenValidator } else { Kind::AikenLib },
                        id: format!("{}/{}", proj.id, path),
                        bytes: code.clone().into_bytes(),
                        alt: None,
                        hot: vec![],
                    });
                }
            }
            if proj.toml.contains("[config") || proj.toml.contains("compiler") || i % 25 == 0 {
                arts.push(Artefact {
                    kind: Kind::Toml,
                    id: format!("{}/aiken.toml", proj.id),
                    bytes: proj.toml.clone().into_bytes(),
                    alt: None,
                    hot: vec![],
                });
            }
        }
        // the manifest `aiken new` writes (ProjectConfig::default + save)
        {
            let disk = RunDisk::new();
            for (n, (owner, repo)) in [("sim", "fresh"), ("acme", "escrow-v2"), ("o", "r"), ("cardano-foundation", "treasury_contracts"), ("x9", "a_b-c")].iter().enumerate() {
                let name = aiken_project::package_name::PackageName { owner: owner.to_string(), repo: repo.to_string() };
                let cfg = ProjectConfig::default(&name);
                if cfg.save(&disk.root).is_ok() {
                    if let Ok(t) = std::fs::read_to_string(disk.root.join("aiken.toml")) {
                        let id = if n == 0 { "aiken-new/aiken.toml".to_string() } else { format!("aiken-new-{n}/aiken.toml") };
                        arts.push(Artefact { kind: Kind::Toml, id, bytes: t.into_bytes(), alt: None, hot: vec![] });
                    }
                }
            }
        }
        for extra in ["examples/hello_world/aiken.toml", "examples/gift_card/aiken.toml"] {
            if let Ok(t) = std::fs::read_to_string(format!("{REPO_DIR}/{extra}")) {
                arts.push(Artefact { kind: Kind::Toml, id: extra.into(), bytes: t.into_bytes(), alt: None, hot: vec![] });
            }
        }
        {
            let mut rng = Rng::new(0xC20A);
            let spec = genproj::generate(&mut rng).spec;
            for (path, code) in spec.files.iter() {
                arts.push(Artefact {
                    kind: if path.starts_with("validators") { Kind::AikenValidator } else { Kind::AikenLib },
                    id: format!("generated/{path}"),
                    bytes: code.clone().into_bytes(),
                    alt: None,
                    hot: vec![],
                });
            }
        }
        // --- parameter data
        let chunked = format!("5f5840{}4101ff", "aa".repeat(64));
        for (i, hexs) in [
            "d8799f182a4568656c6c6fff",
            "9f0102031864ff",
            "a2410101410202",
            "d8799fd87a80d8799f1a000f4240ffff",
            "c24a01000000000000000000",
            "d905039f0102ff",
            chunked.as_str(),
        ]
        .iter()
        .enumerate()
        {
            if let Ok(b) = hex::decode(hexs) {
                arts.push(Artefact { kind: Kind::DataCbor, id: format!("data/{i}"), bytes: b, alt: None, hot: vec![] });
            }
        }
        arts
    })
}

// ------------------------------------------------------------------------------------------
// Consumers

#[derive(Clone, Debug, PartialEq)]
pub enum Verdict {
    /// Rejected before reaching the decoder the way the tool does (e.g. invalid UTF-8 from
    /// `fs::read_to_string`).
    RejectedAtRead,
    Err,
    /// Accepted; the value went through the follow-up consumers without incident.
    Ok,
    Panic { entry: String, info: PanicInfo },
}

fn follow<T>(entry: &str, f: impl FnOnce() -> T) -> Result<T, Verdict> {
    if std::env::var_os("NEST_TRACE").is_some() {
        eprintln!("[stage] {entry}");
    }
    guard(f).map_err(|info| Verdict::Panic {
        entry: entry.to_string(),
        info,
    })
}

/// Feed `bytes` to the consumer(s) of `kind`, as the tool-chain would read them from disk.
pub fn consume(kind: Kind, bytes: &[u8], scratch: &std::path::Path) -> Verdict {
    macro_rules! step {
        ($entry:expr, $body:expr) => {
            match follow($entry, || $body) {
                Ok(v) => v,
                Err(p) => return p,
            }
        };
    }
    if kind.is_text() && std::str::from_utf8(bytes).is_err() && kind != Kind::Blueprint {
        return Verdict::RejectedAtRead;
    }
    match kind {
        Kind::Blueprint => {
            let path = scratch.join("plutus.json");
            if std::fs::write(&path, bytes).is_err() {
                return Verdict::RejectedAtRead;
            }
            let loaded = step!("Project::blueprint", Project::<Capture>::blueprint(&path));
            let Ok(bp) = loaded else {
                return Verdict::Err;
            };
            step!("Blueprint -> script hashes", {
                for v in bp.validators.iter() {
                    let _ = v.program.compiled_code_and_hash();
                    let _ = v.get_module_and_name();
                }
            });
            step!("serde_json::to_string(Blueprint)", {
                let _ = serde_json::to_string_pretty(&bp);
            });
            let title_parts: Option<(String, String)> = bp.validators.first().map(|v| {
                let (m, n) = v.get_module_and_name();
                (m.to_string(), n.to_string())
            });
            if let Some((m, n)) = title_parts {
                for param in [
                    uplc::ast::Data::integer(42.into()),
                    uplc::ast::Data::bytestring(vec![1, 2, 3]),
                    uplc::ast::Data::constr(0, vec![uplc::ast::Data::bytestring(vec![7]), uplc::ast::Data::integer(1.into())]),
                    uplc::ast::Data::list(vec![uplc::ast::Data::integer(1.into())]),
                ] {
                    let mut copy = bp.clone();
                    let applied = step!(
                        "Blueprint::apply_parameter (loaded blueprint)",
                        copy.apply_parameter(Some(&m), Some(&n), &param)
                    );
                    if applied.is_ok() {
                        step!("serde_json::to_string(applied Blueprint)", {
                            let _ = serde_json::to_string_pretty(&copy);
                        });
                        break;
                    }
                }
            }
            Verdict::Ok
        }
        Kind::Flat => {
            let r = step!("Program<DeBruijn>::from_flat", Program::<DeBruijn>::from_flat(bytes).map(|p| p.to_flat().map(|f| f.len())));
            let r2 = step!("Program<FakeNamedDeBruijn>::from_flat", Program::<FakeNamedDeBruijn>::from_flat(bytes).is_ok());
            match r {
                Ok(_) => {
                    step!("decoded flat -> named -> pretty", {
                        if let Ok(p) = Program::<DeBruijn>::from_flat(bytes) {
                            let n: Program<NamedDeBruijn> = p.clone().into();
                            let _ = format!("{}", n.to_pretty().len());
                            if let Ok(named) = Program::<Name>::try_from(p) {
                                let _ = named.to_pretty();
                            }
                        }
                    });
                    Verdict::Ok
                }
                Err(_) => {
                    let _ = r2;
                    Verdict::Err
                }
            }
        }
        Kind::Cbor => {
            let ok = step!("Program<DeBruijn>::from_cbor", {
                let mut buf = vec![];
                Program::<DeBruijn>::from_cbor(bytes, &mut buf)
                    .map(|p| {
                        let _ = p.to_cbor();
                        let _ = p.to_hex();
                    })
                    .is_ok()
            });
            step!("Program<FakeNamedDeBruijn>::from_cbor", {
                let mut buf = vec![];
                let _ = Program::<FakeNamedDeBruijn>::from_cbor(bytes, &mut buf).is_ok();
            });
            if ok {
                step!("decoded cbor -> named -> pretty", {
                    let mut buf = vec![];
                    if let Ok(p) = Program::<DeBruijn>::from_cbor(bytes, &mut buf) {
                        if let Ok(named) = Program::<Name>::try_from(p) {
                            let _ = named.to_pretty();
                        }
                    }
                });
                Verdict::Ok
            } else {
                Verdict::Err
            }
        }
        Kind::Hex => {
            let s = String::from_utf8_lossy(bytes).to_string();
            let ok = step!("Program<DeBruijn>::from_hex", {
                let mut a = vec![];
                let mut b = vec![];
                Program::<DeBruijn>::from_hex(s.trim(), &mut a, &mut b)
                    .map(|p| {
                        let _ = p.to_hex();
                    })
                    .is_ok()
            });
            if ok { Verdict::Ok } else { Verdict::Err }
        }
        Kind::UplcText => {
            let s = String::from_utf8_lossy(bytes).to_string();
            let parsed = step!("uplc::parser::program", uplc::parser::program(&s));
            let _ = step!(
                "uplc::parser::program_with_canonical_value_literals",
                uplc::parser::program_with_canonical_value_literals(&s).is_ok()
            );
            match parsed {
                Ok(p) => {
                    step!("parsed uplc -> pretty / debruijn / flat", {
                        let _ = p.to_pretty();
                        if let Ok(db) = p.clone().to_debruijn() {
                            let _ = db.to_flat();
                            let _ = db.to_hex();
                        }
                    });
                    Verdict::Ok
                }
                Err(_) => Verdict::Err,
            }
        }
        Kind::AikenLib | Kind::AikenValidator => {
            let s = String::from_utf8_lossy(bytes).to_string();
            let mk = if kind == Kind::AikenLib { ModuleKind::Lib } else { ModuleKind::Validator };
            let parsed = step!("aiken_lang::parser::module", aiken_lang::parser::module(&s, mk));
            // the `aiken fmt --check` path on a file
            let file = scratch.join("lib").join("m.ak");
            let _ = std::fs::create_dir_all(file.parent().unwrap());
            if std::fs::write(&file, bytes).is_ok() {
                step!("aiken_project::format::run(check)", {
                    let _ = aiken_project::format::run(false, true, vec![file.to_string_lossy().to_string()]);
                });
            }
            match parsed {
                Ok((module, extra)) => {
                    let out = step!("aiken_lang::format::pretty", {
                        let mut out = String::new();
                        aiken_lang::format::pretty(&mut out, module, extra, &s);
                        out
                    });
                    // formatted text is what `aiken fmt` writes back: it is read again next time
                    step!("parser::module(formatted output)", {
                        let _ = aiken_lang::parser::module(&out, mk);
                    });
                    Verdict::Ok
                }
                Err(_) => Verdict::Err,
            }
        }
        Kind::Toml => {
            let dir = scratch.join("cfg");
            let _ = std::fs::create_dir_all(&dir);
            if std::fs::write(dir.join("aiken.toml"), bytes).is_err() {
                return Verdict::RejectedAtRead;
            }
            let r = step!("ProjectConfig::load", ProjectConfig::load(&dir));
            match r {
                Ok(cfg) => {
                    step!("ProjectConfig -> toml / config definitions", {
                        let _ = toml_string(&cfg);
                    });
                    Verdict::Ok
                }
                Err(_) => Verdict::Err,
            }
        }
        Kind::DataCbor => {
            let r = step!("uplc::plutus_data", uplc::plutus_data(bytes));
            match r {
                Ok(d) => {
                    step!("PlutusData -> hex / term", {
                        let _ = uplc::ast::Data::to_hex(d.clone());
                        let _ = uplc::plutus_data_to_bytes(&d);
                        let t: uplc::ast::Term<Name> = uplc::ast::Term::data(d);
                        let _ = t.to_pretty();
                    });
                    Verdict::Ok
                }
                Err(_) => Verdict::Err,
            }
        }
    }
}

fn toml_string(cfg: &ProjectConfig) -> String {
    format!("{:?}", cfg.name) + &format!("{:?}", cfg.config.len())
}

// ------------------------------------------------------------------------------------------

/// Exhaustive tier: every truncation point and every single-bit flip of every artefact of at
/// most `EXHAUSTIVE_MAX` bytes, cut into chunks of `CHUNK` cases so that one run stays short.
const EXHAUSTIVE_MAX: usize = 4096;
const CHUNK: usize = 2500;

fn exhaustive_plan() -> Vec<(usize, usize)> {
    // (artefact index, chunk index)
    let mut plan = vec![];
    for (i, a) in corpus().iter().enumerate() {
        if a.bytes.len() <= EXHAUSTIVE_MAX && !a.bytes.is_empty() {
            let cases = a.bytes.len() * if a.kind.is_text() { 10 } else { 9 };
            for c in 0..cases.div_ceil(CHUNK) {
                plan.push((i, c));
            }
        }
    }
    plan
}

fn exhaustive_case(a: &Artefact, n: usize) -> Option<Fault> {
    let len = a.bytes.len();
    if n < len {
        Some(Fault::Truncate(n))
    } else if n < len * 9 {
        Some(Fault::FlipBit(n - len))
    } else if n < len * 10 && a.kind.is_text() {
        Some(Fault::WideChar(n - len * 9, 0))
    } else {
        None
    }
}

const RANDOM_RUNS_THOROUGH: u64 = 3200;

fn gen_fault(rng: &mut Rng, a: &Artefact) -> Fault {
    let n = a.bytes.len().max(1);
    // Bias half of the positions into the hot regions.
    let pos = |rng: &mut Rng| -> usize {
        if !a.hot.is_empty() && rng.chance(1, 2) {
            let (s, e) = *rng.pick(&a.hot);
            if e > s {
                return s + rng.usize_below(e - s);
            }
        }
        rng.usize_below(n)
    };
    // (manifests are small and made of little else than quoted values: half of their faults)
    if a.kind.is_text() && rng.chance(1, if a.kind == Kind::Toml { 2 } else { 6 }) {
        // The same fault kinds with positions aligned to a quoted string: its content lost,
        // cut short, or written twice (a block boundary falling on a token boundary).
        let quotes: Vec<usize> = a.bytes.iter().enumerate().filter(|(_, b)| **b == b'"').map(|(i, _)| i).collect();
        if quotes.len() >= 2 {
            let mut q = rng.usize_below(quotes.len() - 1);
            // half of the time a literal introduced by a sigil (`#"…"`, `@"…"`), if there is one
            let sigils: Vec<usize> = (0..quotes.len() - 1).filter(|i| quotes[*i] > 0 && matches!(a.bytes[quotes[*i] - 1], b'#' | b'@')).collect();
            if !sigils.is_empty() && rng.chance(1, 2) {
                q = *rng.pick(&sigils);
            }
            let (open, close) = (quotes[q], quotes[q + 1]);
            if close > open + 1 {
                let len = close - open - 1;
                return match rng.below(6) {
                    4 | 5 => Fault::WideChar(open + 1 + rng.usize_below(len), rng.below(WIDE.len() as u64) as u8),
                    0 => Fault::DelRange(open + 1, len),
                    1 => Fault::DelRange(open + 2, len.saturating_sub(1).max(1)),
                    2 => Fault::DupRange(open + 1, len),
                    _ => Fault::ZeroRange(open + 1, len),
                };
            }
        }
    }
    if a.kind.is_text() && rng.chance(1, 6) {
        // Positions aligned to an escape sequence inside the text: the escape lost, written twice,
        // cut in the middle, or the file ending right after it.
        let slashes: Vec<usize> = a.bytes.iter().enumerate().filter(|(_, b)| **b == b'\\').map(|(i, _)| i).collect();
        if !slashes.is_empty() {
            let p = *rng.pick(&slashes);
            let len = match a.bytes.get(p + 1) {
                Some(b'x') => 4,
                Some(b'u') => a.bytes[p..].iter().position(|b| *b == b'}').map(|e| e + 1).unwrap_or(2),
                _ => 2,
            };
            return match rng.below(6) {
                0 | 1 => Fault::DelRange(p, len),
                2 => Fault::DupRange(p, len),
                3 => Fault::Truncate(p + len),
                4 => Fault::DelRange(p + 2, 1),
                _ => Fault::Truncate(p + 2),
            };
        }
    }
    if a.kind.is_text() && rng.chance(1, 8) {
        // Positions aligned to a comment line: its text lost (the marker and the blank after it
        // survive), lost including the blank, or the line cut right after the marker.
        let mut comments: Vec<(usize, usize)> = vec![]; // (first byte after the slashes, end of line)
        let mut start = 0usize;
        for line in a.bytes.split_inclusive(|b| *b == b'\n') {
            let body = line.strip_suffix(b"\n").unwrap_or(line);
            let indent = body.iter().take_while(|b| **b == b' ' || **b == b'\t').count();
            let slashes = body[indent..].iter().take_while(|b| **b == b'/').count();
            if slashes >= 2 && body.len() > indent + slashes {
                comments.push((start + indent + slashes, start + body.len()));
            }
            start += line.len();
        }
        if !comments.is_empty() {
            let (s, e) = *rng.pick(&comments);
            return match rng.below(4) {
                0 | 1 => Fault::DelRange(s + 1, e.saturating_sub(s + 1).max(1)),
                2 => Fault::DelRange(s, e - s),
                _ => Fault::Truncate(s + 1),
            };
        }
    }
    if a.kind.is_text() && rng.chance(1, 4) {
        let lines = a.bytes.iter().filter(|b| **b == b'\n').count().max(1);
        let at = rng.usize_below(lines);
        let len = 1 + rng.usize_below(3);
        return match rng.below(3) {
            0 => Fault::DupLines(at, len),
            1 => Fault::DelLines(at, len),
            _ => Fault::MoveLines(at, len, rng.usize_below(lines)),
        };
    }
    if a.kind.is_text() && rng.chance(1, 12) {
        return Fault::WideChar(pos(rng), rng.below(WIDE.len() as u64) as u8);
    }
    match rng.below(if a.alt.is_some() { 12 } else { 11 }) {
        0 | 1 => Fault::Truncate(pos(rng)),
        2..=4 => {
            let p = pos(rng);
            // text artefacts: keep half of the flips inside the 7-bit range so the result stays UTF-8
            let bit = if a.kind.is_text() && rng.chance(3, 4) { rng.usize_below(7) } else { rng.usize_below(8) };
            Fault::FlipBit(p * 8 + bit)
        }
        5 => Fault::SetByte(pos(rng), *rng.pick(&[0x00u8, 0x7f, 0x80, 0xff, b'"', b'(', b'[', b'0'])),
        6 => Fault::ZeroRange(pos(rng), 1 + rng.usize_below(64)),
        7 => Fault::DupRange(pos(rng), 1 + rng.usize_below(128)),
        8 => Fault::DelRange(pos(rng), 1 + rng.usize_below(64)),
        9 => Fault::SwapBlocks(pos(rng), pos(rng), 1 + rng.usize_below(32)),
        10 => {
            let l = 1 + rng.usize_below(16);
            Fault::Append(if a.kind.is_text() {
                (0..l).map(|_| *rng.pick(b"{}[]()\",:#x01 \n")).collect()
            } else {
                rng.bytes(l)
            })
        }
        _ => {
            let alt_len = a.alt.as_ref().map(|b| b.len()).unwrap_or(1).max(1);
            // torn at a 512-byte boundary half of the time
            if rng.chance(1, 2) && alt_len > 512 {
                Fault::Torn(512 * (1 + rng.usize_below(alt_len / 512)))
            } else {
                Fault::Torn(rng.usize_below(alt_len))
            }
        }
    }
}

/// Known-finding key: entry point + panic site + the constant part of the message (everything
/// before the first quote, digit run or colon-separated payload), so that a different crash of
/// the same property is still reported while the same one is recognised whatever the input was.
fn panic_signature(_kind: Kind, entry: &str, info: &PanicInfo) -> String {
    let msg = info.message.replace('\n', " ");
    let cut = msg
        .find(['"', '\''])
        .unwrap_or(msg.len())
        .min(msg.find(char::is_numeric).unwrap_or(msg.len()));
    let mut end = cut.min(60);
    while !msg.is_char_boundary(end) {
        end -= 1;
    }
    format!(
        "panic|entry={entry}|site={}|msg={}",
        info.site(),
        msg[..end].trim()
    )
}

fn check_bytes(
    ctx: &mut RunCtx,
    a_kind: Kind,
    a_id: &str,
    faults: &[Fault],
    bytes: &[u8],
    scratch: &std::path::Path,
) -> Verdict {
    let v = consume(a_kind, bytes, scratch);
    ctx.stats.inc("evaluations", 1);
    ctx.logical_steps += 1;
    match &v {
        Verdict::RejectedAtRead => ctx.stats.inc("rejected_at_read_invalid_utf8", 1),
        Verdict::Err => ctx.stats.inc("rejected_with_error", 1),
        Verdict::Ok => ctx.stats.inc("still_accepted", 1),
        Verdict::Panic { entry, info } => {
            ctx.stats.inc("panics", 1);
            ctx.violation(
                PROP,
                "panic",
                panic_signature(a_kind, entry, info),
                format!(
                    "{} of {} after storage fault(s) {:?}: {entry} panicked: {} @ {} ({} bytes read)",
                    a_kind.tag(),
                    a_id,
                    faults,
                    info.message,
                    info.location,
                    bytes.len()
                ),
                json!({ "kind": a_kind, "artefact": a_id, "faults": faults, "bytes_hex": hex::encode(bytes) }),
            );
        }
    }
    v
}

/// Shrink the corrupted bytes while the same panic signature persists (ddmin over chunks).
fn minimise_bytes(kind: Kind, bytes: &[u8], sig: &str, scratch: &std::path::Path) -> Vec<u8> {
    let still = |b: &[u8]| match consume(kind, b, scratch) {
        Verdict::Panic { entry, info } => panic_signature(kind, &entry, &info) == sig,
        _ => false,
    };
    let mut best = bytes.to_vec();
    let mut chunk = best.len() / 2;
    let mut budget = 400;
    while chunk >= 1 && budget > 0 {
        let mut i = 0;
        let mut progressed = false;
        while i < best.len() && budget > 0 {
            let e = (i + chunk).min(best.len());
            let mut c = best[..i].to_vec();
            c.extend(&best[e..]);
            budget -= 1;
            if !c.is_empty() && still(&c) {
                best = c;
                progressed = true;
            } else {
                i += chunk;
            }
        }
        if !progressed {
            chunk /= 2;
        }
    }
    best
}

fn on_consumer_stack<T: Send + 'static>(f: impl FnOnce() -> T + Send + 'static) -> Result<T, PanicInfo> {
    let h = std::thread::Builder::new()
        .name("consumer".into())
        .stack_size(CONSUMER_STACK)
        .spawn(move || guard(f))
        .expect("spawn consumer thread");
    match h.join() {
        Ok(r) => r,
        Err(_) => Err(PanicInfo { message: "<consumer thread died>".into(), location: "<unknown>".into() }),
    }
}

impl Engine for StorageEngine {
    fn property(&self) -> &'static str {
        PROP
    }
    fn name(&self) -> &'static str {
        "sim-storage"
    }
    fn engine_id(&self) -> u64 {
        20
    }
    fn runs(&self, tier: Tier) -> u64 {
        match tier {
            Tier::Quick => 640 + NEST_SHAPES.len() as u64,
            Tier::Thorough => RANDOM_RUNS_THOROUGH + exhaustive_plan().len() as u64 + NEST_SHAPES.len() as u64,
        }
    }
    fn selfcheck_runs(&self, tier: Tier) -> u64 {
        match tier {
            Tier::Quick => 16,
            Tier::Thorough => 48,
        }
    }

    fn run(&self, ctx: &mut RunCtx) {
        let plain_runs = match ctx.tier {
            Tier::Quick => 640,
            Tier::Thorough => RANDOM_RUNS_THOROUGH + exhaustive_plan().len() as u64,
        };
        if ctx.k >= plain_runs {
            nest_run(ctx, (ctx.k - plain_runs) as usize);
            return;
        }
        let arts = corpus();
        if arts.len() < 40 {
            ctx.harness_error(format!("artefact corpus too small: {}", arts.len()));
            return;
        }
        // Runs walk the corpus round-robin so every artefact is visited; thorough runs in the
        // second half enumerate every truncation point and every single-bit flip of artefacts
        // up to 4 KiB.
        let chunk: Option<(usize, usize)> = if ctx.tier == Tier::Thorough && ctx.k >= RANDOM_RUNS_THOROUGH {
            exhaustive_plan().get((ctx.k - RANDOM_RUNS_THOROUGH) as usize).copied()
        } else {
            None
        };
        let a = match chunk {
            Some((i, _)) => arts[i].clone(),
            None => {
                // one run in four works on a plutus.json (the consumer chain behind it is the
                // longest: JSON → schemas → hex → CBOR → flat → hash check → apply → re-serialise)
                let blueprints: Vec<&Artefact> = arts.iter().filter(|a| a.kind == Kind::Blueprint).collect();
                if ctx.k % 4 == 0 && !blueprints.is_empty() {
                    blueprints[((ctx.k / 4) as usize) % blueprints.len()].clone()
                } else {
                    arts[(ctx.k as usize) % arts.len()].clone()
                }
            }
        };
        let exhaustive = chunk.is_some();
        let cases = match ctx.tier {
            Tier::Quick => 150,
            Tier::Thorough => 400,
        };
        ctx.stats.inc(&format!("artefacts_{}", a.kind.tag()), 1);
        ctx.stats.add("artefacts", hash_str(&a.id));
        ctx.event(&format!("artefact {} {} {} bytes exhaustive={exhaustive}", a.kind.tag(), a.id, a.bytes.len()));
        let mut rng = ctx.rng.clone();
        let k = ctx.k;
        let tier = ctx.tier;
        let seed_k = ctx.seed_k;
        // The whole batch runs on one 8 MiB-stack thread (the stack aiken's CLI decodes on).
        let res = on_consumer_stack(move || {
            let mut inner = RunCtx::new(k, seed_k, tier);
            let disk = RunDisk::new();
            // The unfaulted artefact must be accepted: otherwise the corpus is broken, not the code.
            let base = consume(a.kind, &a.bytes, &disk.root);
            if base != Verdict::Ok {
                inner.stats.inc("artefact_not_accepted_unfaulted", 1);
                inner.stats.note("artefact_not_accepted_unfaulted", &a.id);
            }
            let mut plans: Vec<Vec<Fault>> = vec![];
            if let Some((_, c)) = chunk {
                for n in c * CHUNK..(c + 1) * CHUNK {
                    if let Some(f) = exhaustive_case(&a, n) {
                        plans.push(vec![f]);
                    }
                }
                inner.stats.inc("exhaustive_chunks", 1);
                inner.stats.add("exhaustive_artefacts", hash_str(&a.id));
            } else {
                for _ in 0..cases {
                    let n = match rng.below(10) {
                        0 => 2,
                        1 => 3,
                        _ => 1,
                    };
                    plans.push((0..n).map(|_| gen_fault(&mut rng, &a)).collect());
                }
            }
            for faults in plans {
                let mut bytes = a.bytes.clone();
                for f in &faults {
                    bytes = apply_fault(&bytes, a.alt.as_deref(), f);
                }
                if bytes == a.bytes {
                    inner.stats.inc("fault_changed_nothing", 1);
                    continue;
                }
                for f in &faults {
                    inner.stats.inc(&format!("fault_{}", f.kind()), 1);
                }
                inner.stats.add(
                    "cases",
                    crate::rng::mix(hash_str(&a.id), hash_bytes(&bytes), 0),
                );
                let before = inner.violations.len();
                let v = check_bytes(&mut inner, a.kind, &a.id, &faults, &bytes, &disk.root);
                inner.event(&format!("{:?} -> {}", faults, match v { Verdict::Ok => "ok", Verdict::Err => "err", Verdict::RejectedAtRead => "utf8", Verdict::Panic { .. } => "PANIC" }));
                if inner.violations.len() > before {
                    // minimise the failing bytes, keep the smaller reproduction
                    let sig = inner.violations[before].signature.clone();
                    let min = minimise_bytes(a.kind, &bytes, &sig, &disk.root);
                    if min.len() < bytes.len() {
                        let viol = &mut inner.violations[before];
                        viol.trace = json!({ "kind": a.kind, "artefact": a.id, "faults": faults, "minimised": true, "bytes_hex": hex::encode(&min) });
                        viol.detail = format!("{} [minimised input: {} bytes: {}]", viol.detail, min.len(), short(&String::from_utf8_lossy(&min), 200));
                    }
                    // one report per signature per run is enough
                    let mut seen = std::collections::BTreeSet::new();
                    inner.violations.retain(|v| seen.insert(v.signature.clone()));
                }
            }
            if k % 53 == 0 {
                inner.stats.sample(json!({
                    "artefact": a.id,
                    "kind": a.kind.tag(),
                    "bytes": a.bytes.len(),
                    "example_fault_plans": ["Truncate(k)", "FlipBit(b)", "SetByte(i,0xff)", "ZeroRange", "DupRange", "DelRange", "SwapBlocks", "Append", "Torn(k) with the other build of the same project"],
                    "exhaustive": exhaustive,
                }));
            }
            inner
        });
        match res {
            Ok(inner) => {
                // fold the inner context into ours (events included via its digest)
                ctx.event(&format!("inner digest {:016x}", inner.log.digest()));
                ctx.stats.merge(inner.stats);
                ctx.logical_steps += inner.logical_steps;
                ctx.violations.extend(inner.violations);
                ctx.harness_errors.extend(inner.harness_errors);
                let _ = &mut ctx.rng.next_u64();
            }
            Err(p) => ctx.harness_error(format!("consumer batch escaped: {} @ {}", p.message, p.location)),
        }
    }

    fn replay(&self, trace: &Value, ctx: &mut RunCtx) {
        if jstr(trace, "kind") == "nest" {
            nest_replay(ctx, trace);
            return;
        }
        let Some(kind) = trace
            .get("kind")
            .and_then(|k| serde_json::from_value::<Kind>(k.clone()).ok())
        else {
            ctx.harness_error("replay: no kind".into());
            return;
        };
        let Ok(bytes) = hex::decode(jstr(trace, "bytes_hex")) else {
            ctx.harness_error("replay: bad bytes".into());
            return;
        };
        let id = jstr(trace, "artefact");
        let faults: Vec<Fault> = trace
            .get("faults")
            .and_then(|f| serde_json::from_value(f.clone()).ok())
            .unwrap_or_default();
        let k = ctx.k;
        let seed_k = ctx.seed_k;
        let res = on_consumer_stack(move || {
            let mut inner = RunCtx::new(k, seed_k, Tier::Quick);
            let disk = RunDisk::new();
            check_bytes(&mut inner, kind, &id, &faults, &bytes, &disk.root);
            inner
        });
        match res {
            Ok(inner) => ctx.violations.extend(inner.violations),
            Err(p) => ctx.harness_error(format!("replay escaped: {} @ {}", p.message, p.location)),
        }
    }

    fn evidence(&self, stats: &Stats, _tier: Tier) -> EvidenceParts {
        let faults: std::collections::BTreeMap<String, u64> = stats
            .counters
            .iter()
            .filter(|(k, _)| k.starts_with("fault_") && k.as_str() != "fault_changed_nothing")
            .map(|(k, v)| (k.trim_start_matches("fault_").to_string(), *v))
            .collect();
        let arts: std::collections::BTreeMap<String, u64> = stats
            .counters
            .iter()
            .filter(|(k, _)| k.starts_with("artefacts_"))
            .map(|(k, v)| (k.trim_start_matches("artefacts_").to_string(), *v))
            .collect();
        EvidenceParts {
            level: "fault_enumeration",
            evaluations: stats.get("evaluations"),
            distinct_nontrivial: stats.distinct("cases"),
            rule: "artefacts are produced by the real tool-chain (plutus.json of generated projects built silent and verbose, their compiled code as hex / CBOR / flat / pretty text, conformance programs, shipped .ak sources and aiken.toml files, parameter CBOR); runs walk the artefact corpus round-robin; each case applies 1-3 storage faults (truncate, bit flip, stuck byte, zeroed / duplicated / deleted range, swapped blocks, appended garbage, torn write between the two builds, duplicated / deleted / moved lines, one character read back as a multi-byte character), half of the positions biased into compiledCode / hash / $ref values, some aligned to a quoted string, an escape sequence or a comment line, and feeds the bytes to the consumer the tool uses for that file plus the next consumer down the chain, on an 8 MiB stack; thorough additionally enumerates every truncation point and every single-bit flip (text: also U+FFFD at every character) of artefacts up to 4 KiB. The last 27 runs are the nesting workload: plain inputs of at most 48 KiB that only nest deeply, one per shape, each fed to the same consumers in a child process on an 8 MiB stack (48 levels under a 20 s bound judged on time; the deep rungs judged on crashes only). distinct = distinct (artefact, corrupted bytes); non-trivial = the fault changed the bytes".into(),
            extra: json!({
                "fault_kinds_applied": faults,
                "faults_that_changed_nothing": stats.get("fault_changed_nothing"),
                "artefact_kinds_visited": arts,
                "distinct_artefacts": stats.distinct("artefacts"),
                "outcomes": {
                    "rejected_with_error": stats.get("rejected_with_error"),
                    "still_accepted_and_passed_down_the_chain": stats.get("still_accepted"),
                    "rejected_at_read_invalid_utf8": stats.get("rejected_at_read_invalid_utf8"),
                    "panics": stats.get("panics"),
                },
                "exhaustive_enumeration": {
                    "artefacts_fully_enumerated": stats.distinct("exhaustive_artefacts"),
                    "chunks_of_2500_cases": stats.get("exhaustive_chunks"),
                    "space": "every truncation point and every single-bit flip of every artefact of at most 4096 bytes",
                },
                "nesting_workload": {
                    "shapes": NEST_SHAPES.len(),
                    "shapes_run": stats.get("nest_shapes_run"),
                    "child_process_cases": stats.get("nest_cases"),
                    "minimisation_cases": stats.get("nest_minimisation_cases"),
                    "hangs_at_48_levels": stats.get("nest_hangs"),
                    "crashes_on_deep_rungs": stats.get("nest_crashes"),
                    "slow_on_deep_rungs_not_judged": stats.get("nest_slow_not_judged"),
                    "input_cap_bytes": NEST_CAP,
                    "note": "input construction, not fault injection; the simulator contributes process isolation, the wall bound and replay",
                },
                "exhaustive": false,
                "unfaulted_artefacts_not_accepted": stats.notes.get("artefact_not_accepted_unfaulted"),
                "components": {
                    "real": ["Project::blueprint → compiled_code_and_hash → apply_parameter → re-serialise", "Program::{from_flat, from_cbor, from_hex} (DeBruijn and FakeNamedDeBruijn) → to_pretty", "uplc::parser::program(+canonical literals) → to_pretty/to_flat", "aiken_lang::parser::module → format::pretty → parse again; aiken_project::format::run(check) on a file", "ProjectConfig::load", "uplc::plutus_data → hex/term"],
                    "simulated": ["file contents at rest (tmpfs disk): what was written is not what is read"],
                    "stubbed": []
                }
            }),
            assumptions: vec![
                "only the storage-fault subset of C20 is claimed, plus deep nesting of otherwise plain inputs: near-valid inputs that truncation, bit rot, torn or misplaced writes produce; other adversarially constructed inputs (grammar-aware garbage) are outside this family".into(),
                "a stack overflow is judged on an 8 MiB stack (the CLI's main thread); rayon workers, which parse project sources, have 2 MiB and overflow sooner".into(),
                "the verdict is taken in the profile aiken ships (no overflow checks / debug assertions): an arithmetic overflow that would panic only in a debug build is not counted".into(),
                "invalid UTF-8 is rejected by fs::read_to_string before a text decoder sees it; such cases are counted, not fed".into(),
            ],
        }
    }

    fn hang_bound(&self, tier: Tier) -> std::time::Duration {
        // a nesting run spends up to a few child-process bounds
        std::time::Duration::from_secs(match tier {
            Tier::Quick => 600,
            Tier::Thorough => 2400,
        })
    }
}

// ------------------------------------------------------------------------------------------
// Nesting workload: "overflows the stack on modest input, or loops".
//
// One case = one syntactically plain input whose only unusual feature is how deep it nests
// (brackets, unary operators, `delay`s, CBOR list headers …), no larger than `NEST_CAP` bytes, fed
// to the same consumer chain as the artefacts — in a CHILD PROCESS, on a thread with the main
// thread's stack size, because the outcomes looked for (stack overflow → SIGABRT/SIGSEGV, a
// parse that does not come back) kill or stall whoever runs them. The child's only clock-dependent
// verdict is "did not finish within the bound", and the bound is chosen three orders of magnitude
// above what a linear consumer needs (48 levels of nesting parse in well under 10 ms when the
// parser is linear; the cases that fail here would need centuries), so the verdict replays.
// Only the 48-level rung is judged on time: on the deep rungs several consumers are merely
// quadratic in the depth, which is slow but not a loop, so there a case that is still running at
// the bound is counted as `slow` and never reported; deep rungs are judged on crashes only.

pub const NEST_CAP: usize = 48 * 1024;
const NEST_SMALL_DEPTH: usize = 48;
const NEST_SMALL_BOUND_S: u64 = 20;
const NEST_BIG_BOUND_QUICK_S: u64 = 60;
const NEST_BIG_BOUND_THOROUGH_S: u64 = 200;

pub const NEST_SHAPES: &[&str] = &[
    "aiken-parens", "aiken-not", "aiken-negate", "aiken-lists", "aiken-tuples", "aiken-calls", "aiken-blocks", "aiken-if",
    "aiken-type", "aiken-pattern", "aiken-binop",
    "uplc-delay", "uplc-apply", "uplc-lam", "uplc-constr", "uplc-data-list", "uplc-data-constr", "uplc-list-type",
    "flat-delay", "flat-apply", "cbor-delay", "hex-delay",
    "data-lists", "data-constr", "data-maps",
    "json-schema", "toml-arrays",
];

fn nested_term(shape: &str, depth: usize) -> Option<Vec<u8>> {
    // built, encoded and leaked on a large stack (dropping a deep term recurses too)
    let shape = shape.to_string();
    on_fresh_thread("build", move || {
        use uplc::ast::{Constant, DeBruijn, Term};
        let mut t: Term<DeBruijn> = Term::Constant(Constant::Unit.into());
        for _ in 0..depth {
            t = if shape.ends_with("apply") {
                Term::Apply { function: Term::Lambda { parameter_name: DeBruijn::new(0).into(), body: Term::Var(DeBruijn::new(1).into()).into() }.into(), argument: t.into() }
            } else {
                Term::Delay(t.into())
            };
        }
        let p = Program { version: (1, 0, 0), term: t };
        let out = if shape.starts_with("flat") {
            p.to_flat().ok()
        } else if shape.starts_with("cbor") {
            p.to_cbor().ok()
        } else {
            p.to_hex().ok().map(|h| h.into_bytes())
        };
        std::mem::forget(p);
        out
    })
    .ok()
    .flatten()
}

pub fn nest_input(shape: &str, depth: usize) -> Option<(Kind, Vec<u8>)> {
    let rep = |s: &str| s.repeat(depth);
    let text = |k: Kind, s: String| Some((k, s.into_bytes()));
    match shape {
        "aiken-parens" => text(Kind::AikenLib, format!("pub fn f() {{\n  {}1{}\n}}\n", rep("("), rep(")"))),
        "aiken-not" => text(Kind::AikenLib, format!("pub fn f(x: Bool) {{\n  {}x\n}}\n", rep("!"))),
        "aiken-negate" => text(Kind::AikenLib, format!("pub fn f(x: Int) {{\n  {}x\n}}\n", rep("- "))),
        "aiken-lists" => text(Kind::AikenLib, format!("pub const c = {}1{}\n", rep("["), rep("]"))),
        "aiken-tuples" => text(Kind::AikenLib, format!("pub fn f() {{\n  {}1{}\n}}\n", rep("(1, "), rep(")"))),
        "aiken-calls" => text(Kind::AikenLib, format!("pub fn g(x: Int) -> Int {{\n  x\n}}\n\npub fn f() {{\n  {}1{}\n}}\n", rep("g("), rep(")"))),
        "aiken-blocks" => text(Kind::AikenLib, format!("pub fn f() {{\n  {}1{}\n}}\n", rep("{ "), rep(" }"))),
        "aiken-if" => text(Kind::AikenLib, format!("pub fn f(x: Bool) {{\n  {}1{}\n}}\n", rep("if x { "), rep(" } else { 0 }"))),
        "aiken-type" => text(Kind::AikenLib, format!("pub fn f(x: {}Int{}) {{\n  x\n}}\n", rep("List<"), rep(">"))),
        "aiken-pattern" => text(Kind::AikenLib, format!("pub fn f(x) {{\n  when x is {{\n    {}_{} -> 1\n    _ -> 0\n  }}\n}}\n", rep("Some("), rep(")"))),
        "aiken-binop" => text(Kind::AikenLib, format!("pub fn f() {{\n  {}1{}\n}}\n", rep("1 + ("), rep(")"))),
        "uplc-delay" => text(Kind::UplcText, format!("(program 1.0.0 {}(con unit ()){})", rep("(delay "), rep(")"))),
        "uplc-apply" => text(Kind::UplcText, format!("(program 1.0.0 {}(con unit ()){})", rep("[ (lam x x) "), rep(" ]"))),
        "uplc-lam" => text(Kind::UplcText, format!("(program 1.0.0 {}(con unit ()){})", rep("(lam x "), rep(")"))),
        "uplc-constr" => text(Kind::UplcText, format!("(program 1.1.0 {}(con unit ()){})", rep("(constr 0 "), rep(")"))),
        "uplc-data-list" => text(Kind::UplcText, format!("(program 1.0.0 (con data ({}I 1{})))", rep("List ["), rep("]"))),
        "uplc-data-constr" => text(Kind::UplcText, format!("(program 1.0.0 (con data ({}I 1{})))", rep("Constr 0 ["), rep("]"))),
        "uplc-list-type" => text(Kind::UplcText, format!("(program 1.0.0 (con {}integer{} {}1{}))", rep("(list "), rep(")"), rep("["), rep("]"))),
        "flat-delay" | "flat-apply" => nested_term(shape, depth).map(|b| (Kind::Flat, b)),
        "cbor-delay" => nested_term(shape, depth).map(|b| (Kind::Cbor, b)),
        "hex-delay" => nested_term(shape, depth).map(|b| (Kind::Hex, b)),
        "data-lists" => {
            let mut b = vec![0x81u8; depth];
            b.push(0x00);
            Some((Kind::DataCbor, b))
        }
        "data-constr" => {
            let mut b = vec![];
            for _ in 0..depth {
                b.extend([0xd8, 0x79, 0x81]);
            }
            b.push(0x00);
            Some((Kind::DataCbor, b))
        }
        "data-maps" => {
            let mut b = vec![];
            for _ in 0..depth {
                b.extend([0xa1, 0x00]);
            }
            b.push(0x00);
            Some((Kind::DataCbor, b))
        }
        "json-schema" => text(
            Kind::Blueprint,
            format!(
                "{{\"preamble\":{{\"title\":\"a/b\",\"version\":\"0.0.0\",\"plutusVersion\":\"v3\"}},\"validators\":[],\"definitions\":{{\"x\":{}{{\"dataType\":\"integer\"}}{}}}}}",
                rep("{\"dataType\":\"list\",\"items\":"),
                rep("}")
            ),
        ),
        "toml-arrays" => text(Kind::Toml, format!("name = \"a/b\"\nversion = \"0.0.0\"\nplutus = \"v3\"\n[config.default]\nx = {}1{}\n", rep("["), rep("]"))),
        _ => None,
    }
}

/// Child-process entry: `dst nestcase <shape> <depth>`. Exit 0 = value or error, 3 = panic caught,
/// death by signal = stack overflow / abort.
pub fn nestcase_main(shape: &str, depth: usize) -> i32 {
    let Some((kind, bytes)) = nest_input(shape, depth) else {
        println!("NEST cannot build {shape} {depth}");
        return 2;
    };
    let n = bytes.len();
    let r = on_consumer_stack(move || {
        let disk = RunDisk::new();
        consume(kind, &bytes, &disk.root)
    });
    match r {
        Ok(Verdict::Panic { entry, info }) => {
            println!("NEST {shape} depth={depth} bytes={n}: PANIC in {entry}: {} @ {}", short(&info.message.replace('\n', " "), 200), info.site());
            3
        }
        Ok(v) => {
            println!("NEST {shape} depth={depth} bytes={n}: {:?}", v);
            0
        }
        Err(p) => {
            println!("NEST {shape} depth={depth} bytes={n}: PANIC in consumer thread: {}", short(&p.message, 200));
            3
        }
    }
}

#[derive(Clone, Debug, PartialEq)]
pub enum NestOutcome {
    Fine,
    Panic(String, String),
    /// killed by a signal; last consumer stage entered
    Died(String),
    /// did not finish within the bound; last consumer stage entered
    Stalled(String),
    Harness(String),
}

/// Run one case in a child process with a wall bound.
pub fn nest_child(shape: &str, depth: usize, bound_s: u64) -> (NestOutcome, std::time::Duration) {
    use std::io::Read;
    use std::process::{Command, Stdio};
    let started = std::time::Instant::now();
    let exe = match std::env::current_exe() {
        Ok(e) => e,
        Err(e) => return (NestOutcome::Harness(format!("current_exe: {e}")), started.elapsed()),
    };
    let mut child = match Command::new(exe)
        .args(["nestcase", shape, &depth.to_string()])
        .env("NEST_TRACE", "1")
        .stdin(Stdio::null())
        .stdout(Stdio::piped())
        .stderr(Stdio::piped())
        .spawn()
    {
        Ok(c) => c,
        Err(e) => return (NestOutcome::Harness(format!("spawn: {e}")), started.elapsed()),
    };
    // stderr carries one short line per stage; read it on a thread so a full pipe never blocks the child
    let mut err_pipe = child.stderr.take().expect("stderr");
    let mut out_pipe = child.stdout.take().expect("stdout");
    let err_reader = std::thread::spawn(move || {
        let mut s = String::new();
        let _ = err_pipe.read_to_string(&mut s);
        s
    });
    let out_reader = std::thread::spawn(move || {
        let mut s = String::new();
        let _ = out_pipe.read_to_string(&mut s);
        s
    });
    let deadline = started + std::time::Duration::from_secs(bound_s);
    let status = loop {
        match child.try_wait() {
            Ok(Some(st)) => break Some(st),
            Ok(None) => {
                if std::time::Instant::now() >= deadline {
                    let _ = child.kill();
                    let _ = child.wait();
                    break None;
                }
                std::thread::sleep(std::time::Duration::from_millis(15));
            }
            Err(e) => return (NestOutcome::Harness(format!("wait: {e}")), started.elapsed()),
        }
    };
    let stderr = err_reader.join().unwrap_or_default();
    let stdout = out_reader.join().unwrap_or_default();
    let stage = stderr.lines().rev().find_map(|l| l.strip_prefix("[stage] ")).unwrap_or("<before the first stage>").to_string();
    let took = started.elapsed();
    let outcome = match status {
        None => NestOutcome::Stalled(stage),
        Some(st) => {
            use std::os::unix::process::ExitStatusExt;
            if st.signal().is_some() {
                NestOutcome::Died(stage)
            } else {
                match st.code() {
                    Some(0) => NestOutcome::Fine,
                    Some(3) => {
                        let line = stdout.lines().find(|l| l.starts_with("NEST ")).unwrap_or("").to_string();
                        let site = line.rsplit(" @ ").next().unwrap_or("").to_string();
                        NestOutcome::Panic(line, site)
                    }
                    other => NestOutcome::Harness(format!("nestcase exited with {other:?}: {}", short(&stdout, 200))),
                }
            }
        }
    };
    (outcome, took)
}

fn nest_big_depth(shape: &str) -> usize {
    // the deepest input of this shape that stays within NEST_CAP bytes (at most 20 000 levels)
    let (mut lo, mut hi) = (NEST_SMALL_DEPTH, 20_000usize);
    let fits = |d: usize| nest_input(shape, d).map(|(_, b)| b.len() <= NEST_CAP).unwrap_or(false);
    if fits(hi) {
        return hi;
    }
    while hi - lo > 16 {
        let mid = (lo + hi) / 2;
        if fits(mid) { lo = mid } else { hi = mid }
    }
    lo
}

fn nest_violation(ctx: &mut RunCtx, shape: &str, depth: usize, bound_s: u64, outcome: &NestOutcome, extra: &str) {
    let bytes = nest_input(shape, depth).map(|(_, b)| b.len()).unwrap_or(0);
    let (class, sig, what) = match outcome {
        NestOutcome::Died(stage) => (
            "nesting-stack-overflow",
            format!("nesting-stack-overflow|shape={shape}|stage={stage}"),
            format!("the process is killed by a signal (stack overflow on an 8 MiB stack) in stage `{stage}`"),
        ),
        NestOutcome::Stalled(stage) => (
            "nesting-hang",
            format!("nesting-hang|shape={shape}|stage={stage}"),
            format!("stage `{stage}` does not come back within {bound_s} s"),
        ),
        NestOutcome::Panic(line, site) => ("nesting-panic", format!("nesting-panic|shape={shape}|site={site}"), format!("panic: {line}")),
        _ => return,
    };
    ctx.violation(
        PROP,
        class,
        sig,
        format!("input `{shape}` nested {depth} deep ({bytes} bytes): {what}{extra}"),
        json!({ "kind": "nest", "shape": shape, "depth": depth, "bound_s": bound_s }),
    );
}

fn nest_run(ctx: &mut RunCtx, j: usize) {
    let shape = NEST_SHAPES[j % NEST_SHAPES.len()];
    ctx.stats.inc("nest_shapes_run", 1);
    // rung 1: a few dozen levels — only a consumer whose cost explodes with depth notices
    let (o, _) = nest_child(shape, NEST_SMALL_DEPTH, NEST_SMALL_BOUND_S);
    ctx.stats.inc("evaluations", 1);
    ctx.stats.inc("nest_cases", 1);
    ctx.event(&format!("nest {shape} depth={NEST_SMALL_DEPTH} -> {}", nest_tag(&o)));
    match &o {
        NestOutcome::Harness(e) => {
            ctx.harness_error(format!("nesting case {shape}: {e}"));
            return;
        }
        NestOutcome::Fine => {}
        NestOutcome::Stalled(_) => {
            ctx.stats.inc("nest_hangs", 1);
            // how the time grows below the bound (reported, not judged)
            let mut growth = String::new();
            for d in [8usize, 10, 12, 14] {
                let (o2, t2) = nest_child(shape, d, NEST_SMALL_BOUND_S);
                growth.push_str(&format!(" depth {d}: {}{} ms;", if o2 == NestOutcome::Fine { "" } else { "not finished after " }, t2.as_millis()));
            }
            nest_violation(ctx, shape, NEST_SMALL_DEPTH, NEST_SMALL_BOUND_S, &o, &format!(" — for comparison, the same shape at{growth}"));
            return;
        }
        _ => {
            ctx.stats.inc("nest_crashes", 1);
            nest_violation(ctx, shape, NEST_SMALL_DEPTH, NEST_SMALL_BOUND_S, &o, "");
            return;
        }
    }
    // deeper rungs: judged on crashes only
    let big = nest_big_depth(shape);
    let fits = |d: usize| nest_input(shape, d).map(|(_, b)| b.len() <= NEST_CAP).unwrap_or(false);
    let (rungs, bound): (Vec<usize>, u64) = match (shape.starts_with("aiken-"), ctx.tier) {
        (true, Tier::Quick) => (vec![800], NEST_BIG_BOUND_QUICK_S),
        (true, Tier::Thorough) => (vec![800, 2400], NEST_BIG_BOUND_THOROUGH_S),
        (false, Tier::Quick) => (vec![big], NEST_BIG_BOUND_QUICK_S),
        (false, Tier::Thorough) => (vec![big / 8, big / 2, big], NEST_BIG_BOUND_THOROUGH_S),
    };
    let mut last_fine = NEST_SMALL_DEPTH;
    for depth in rungs {
        if depth <= NEST_SMALL_DEPTH || !fits(depth) {
            continue;
        }
        let (o, _) = nest_child(shape, depth, bound);
        ctx.stats.inc("evaluations", 1);
        ctx.stats.inc("nest_cases", 1);
        ctx.stats.add("nest_distinct", hash_str(&format!("{shape}|{depth}")));
        ctx.event(&format!("nest {shape} depth={depth} -> {}", nest_tag(&o)));
        match &o {
            NestOutcome::Fine => {
                last_fine = depth;
                continue;
            }
            NestOutcome::Harness(e) => {
                ctx.harness_error(format!("nesting case {shape}: {e}"));
                return;
            }
            NestOutcome::Stalled(_) => {
                // slow, not judged (see the header); deeper rungs would only be slower
                ctx.stats.inc("nest_slow_not_judged", 1);
                return;
            }
            NestOutcome::Died(_) | NestOutcome::Panic(_, _) => {
                ctx.stats.inc("nest_crashes", 1);
                // minimise: the shallowest depth that still fails the same way
                let same = |a: &NestOutcome, b: &NestOutcome| std::mem::discriminant(a) == std::mem::discriminant(b);
                let (mut lo, mut hi) = (last_fine, depth);
                let mut worst = o.clone();
                let mut steps = 0;
                while hi - lo > (hi / 16).max(8) && steps < 6 {
                    steps += 1;
                    let mid = (lo + hi) / 2;
                    let (om, _) = nest_child(shape, mid, bound);
                    ctx.stats.inc("nest_minimisation_cases", 1);
                    if same(&om, &o) {
                        hi = mid;
                        worst = om;
                    } else {
                        lo = mid;
                    }
                }
                // the signature names the stage that dies at the full depth (the first stage of the
                // chain that recurses on the input); near the threshold a later stage may die first
                let at_threshold = if nest_tag(&worst) != nest_tag(&o) { format!("; at depth {hi}: {}", nest_tag(&worst)) } else { String::new() };
                nest_violation(ctx, shape, depth, bound, &o, &format!(" — shallowest failing depth found: {hi} ({} bytes){at_threshold}; depth {lo} did not fail that way", nest_input(shape, hi).map(|(_, b)| b.len()).unwrap_or(0)));
                return;
            }
        }
    }
}

fn nest_tag(o: &NestOutcome) -> String {
    match o {
        NestOutcome::Fine => "fine".into(),
        NestOutcome::Panic(_, site) => format!("panic@{site}"),
        NestOutcome::Died(stage) => format!("died in {stage}"),
        NestOutcome::Stalled(stage) => format!("stalled in {stage}"),
        NestOutcome::Harness(_) => "harness".into(),
    }
}

fn nest_replay(ctx: &mut RunCtx, trace: &Value) {
    let shape = jstr(trace, "shape");
    let depth = ju64(trace, "depth") as usize;
    let bound = ju64(trace, "bound_s").max(1);
    let Some(shape) = NEST_SHAPES.iter().find(|s| **s == shape) else {
        ctx.harness_error("replay: unknown nesting shape".into());
        return;
    };
    let (o, _) = nest_child(shape, depth, bound);
    nest_violation(ctx, shape, depth, bound, &o, " (replay)");
}
