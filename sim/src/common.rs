//! Shared machinery: run context, event-log digest, statistics, violations, panic capture,
//! fresh-thread runner.

use crate::rng::{Rng, fnv, mix};
use serde::{Deserialize, Serialize};
use serde_json::{Value, json};
use std::cell::RefCell;
use std::collections::{BTreeMap, BTreeSet};
use std::panic::{AssertUnwindSafe, catch_unwind};

pub const DEFAULT_SEED: u64 = 20260921;
/// Root of the verification tree: `$VERIF_HOME`, else derived from the location of this binary
/// (`<root>/sim/target/release/dst`), else `/verif`. Evidence, replays and known findings live
/// under it, so a snapshot of the tree run elsewhere does not write into the original.
pub fn verif_dir() -> String {
    if let Ok(h) = std::env::var("VERIF_HOME") {
        return h;
    }
    if let Ok(exe) = std::env::current_exe() {
        if let Some(root) = exe.ancestors().nth(4) {
            if root.join("properties.jsonl").is_file() {
                return root.to_string_lossy().to_string();
            }
        }
    }
    "/verif".to_string()
}
pub const REPO_DIR: &str = "/repo";

#[derive(Clone, Copy, PartialEq, Eq, Debug)]
pub enum Tier {
    Quick,
    Thorough,
}

impl Tier {
    pub fn parse(s: &str) -> Option<Tier> {
        match s {
            "quick" => Some(Tier::Quick),
            "thorough" => Some(Tier::Thorough),
            _ => None,
        }
    }
    pub fn as_str(&self) -> &'static str {
        match self {
            Tier::Quick => "quick",
            Tier::Thorough => "thorough",
        }
    }
}

#[derive(Serialize, Deserialize, Clone, Debug)]
pub struct Violation {
    pub property: String,
    /// Violation class (what invariant broke); minimisation preserves it.
    pub class: String,
    /// Stable key used to match `known_findings.jsonl` and to de-duplicate reports.
    pub signature: String,
    pub detail: String,
    /// Explicit, PRNG-free trace that `dst replay` re-executes.
    pub trace: Value,
    #[serde(default)]
    pub seed_k: u64,
    #[serde(default)]
    pub k: u64,
}

#[derive(Default, Serialize, Deserialize, Clone, Debug)]
pub struct Stats {
    pub counters: BTreeMap<String, u64>,
    pub sets: BTreeMap<String, BTreeSet<u64>>,
    pub notes: BTreeMap<String, BTreeSet<String>>,
    pub samples: Vec<Value>,
}

pub const MAX_SAMPLES: usize = 12;

impl Stats {
    pub fn inc(&mut self, name: &str, n: u64) {
        *self.counters.entry(name.to_string()).or_insert(0) += n;
    }
    pub fn max(&mut self, name: &str, n: u64) {
        let e = self.counters.entry(name.to_string()).or_insert(0);
        if n > *e {
            *e = n
        }
    }
    pub fn add(&mut self, set: &str, h: u64) {
        self.sets.entry(set.to_string()).or_default().insert(h);
    }
    pub fn note(&mut self, set: &str, s: &str) {
        self.notes
            .entry(set.to_string())
            .or_default()
            .insert(s.to_string());
    }
    pub fn sample(&mut self, v: Value) {
        if self.samples.len() < MAX_SAMPLES {
            self.samples.push(v);
        }
    }
    pub fn get(&self, name: &str) -> u64 {
        self.counters.get(name).copied().unwrap_or(0)
    }
    pub fn distinct(&self, set: &str) -> u64 {
        self.sets.get(set).map(|s| s.len() as u64).unwrap_or(0)
    }
    pub fn merge(&mut self, other: Stats) {
        for (k, v) in other.counters {
            if k.starts_with("max_") {
                self.max(&k, v);
            } else {
                self.inc(&k, v);
            }
        }
        for (k, v) in other.sets {
            self.sets.entry(k).or_default().extend(v);
        }
        for (k, v) in other.notes {
            self.notes.entry(k).or_default().extend(v);
        }
        for s in other.samples {
            self.sample(s);
        }
    }
}

/// Streaming digest of the events of a run. The digest of a run must be a pure function of
/// (tree, engine, seed_k); `dst` proves that on every invocation by re-running a sample of runs
/// in other processes.
pub struct EventLog {
    digest: u64,
    count: u64,
    text: Option<Vec<String>>,
}

impl EventLog {
    pub fn new(keep_text: bool) -> EventLog {
        EventLog {
            digest: 0x1234_5678_9abc_def0,
            count: 0,
            text: if keep_text { Some(vec![]) } else { None },
        }
    }
    pub fn event(&mut self, s: &str) {
        self.digest = mix(self.digest, fnv(s.as_bytes()), self.count);
        self.count += 1;
        if let Some(t) = &mut self.text {
            eprintln!("[event] {s}");
            t.push(s.to_string());
        }
    }
    pub fn digest(&self) -> u64 {
        self.digest
    }
    pub fn text(&self) -> Option<&[String]> {
        self.text.as_deref()
    }
}

pub struct RunCtx {
    pub k: u64,
    pub seed_k: u64,
    pub rng: Rng,
    pub tier: Tier,
    pub stats: Stats,
    pub violations: Vec<Violation>,
    pub harness_errors: Vec<String>,
    pub log: EventLog,
    /// Logical steps this run covered (machine steps, operations); aiken has no timers, so
    /// "simulated time" is reported as logical steps.
    pub logical_steps: u64,
}

impl RunCtx {
    pub fn new(k: u64, seed_k: u64, tier: Tier) -> RunCtx {
        RunCtx {
            k,
            seed_k,
            rng: Rng::new(seed_k),
            tier,
            stats: Stats::default(),
            violations: vec![],
            harness_errors: vec![],
            log: EventLog::new(std::env::var_os("VERIF_LOG").is_some()),
            logical_steps: 0,
        }
    }
    pub fn event(&mut self, s: &str) {
        self.log.event(s)
    }
    pub fn violation(
        &mut self,
        property: &str,
        class: &str,
        signature: String,
        detail: String,
        trace: Value,
    ) {
        self.event(&format!("VIOLATION {class} {signature}"));
        self.violations.push(Violation {
            property: property.to_string(),
            class: class.to_string(),
            signature,
            detail,
            trace,
            seed_k: self.seed_k,
            k: self.k,
        });
    }
    pub fn harness_error(&mut self, msg: String) {
        self.event(&format!("HARNESS {msg}"));
        self.harness_errors.push(msg);
    }
}

#[derive(Serialize, Deserialize, Debug)]
pub struct RunReport {
    pub k: u64,
    pub seed_k: u64,
    pub digest: u64,
    pub logical_steps: u64,
    pub stats: Stats,
    pub violations: Vec<Violation>,
    pub harness_errors: Vec<String>,
    pub wall_us: u64,
}

// ------------------------------------------------------------------------------------------
// Panic capture

#[derive(Clone, Debug, PartialEq)]
pub struct PanicInfo {
    pub message: String,
    pub location: String,
}

impl PanicInfo {
    /// `file:line` with the path made relative to the repository / registry, so that a signature
    /// does not depend on where the tree lives.
    pub fn site(&self) -> String {
        let loc = &self.location;
        let loc = loc.strip_prefix("/repo/crates/").unwrap_or(loc);
        match loc.find("/registry/src/") {
            Some(i) => {
                let rest = &loc[i + "/registry/src/".len()..];
                match rest.find('/') {
                    Some(j) => rest[j + 1..].to_string(),
                    None => rest.to_string(),
                }
            }
            None => loc.to_string(),
        }
    }
}

thread_local! {
    static LAST_PANIC: RefCell<Option<PanicInfo>> = const { RefCell::new(None) };
}

pub fn install_panic_hook() {
    std::panic::set_hook(Box::new(|info| {
        let message = if let Some(s) = info.payload().downcast_ref::<&str>() {
            s.to_string()
        } else if let Some(s) = info.payload().downcast_ref::<String>() {
            s.clone()
        } else {
            "<non-string panic payload>".to_string()
        };
        let location = info
            .location()
            .map(|l| format!("{}:{}", l.file(), l.line()))
            .unwrap_or_else(|| "<unknown>".to_string());
        if std::env::var_os("VERIF_DEBUG").is_some() {
            eprintln!("[panic] {message} @ {location}");
        }
        LAST_PANIC.with(|slot| {
            *slot.borrow_mut() = Some(PanicInfo { message, location });
        });
    }));
}

/// Run real code; a panic becomes a value with its message and location.
pub fn guard<T>(f: impl FnOnce() -> T) -> Result<T, PanicInfo> {
    LAST_PANIC.with(|slot| *slot.borrow_mut() = None);
    match catch_unwind(AssertUnwindSafe(f)) {
        Ok(v) => Ok(v),
        Err(_) => Err(LAST_PANIC
            .with(|slot| slot.borrow_mut().take())
            .unwrap_or(PanicInfo {
                message: "<panic on another thread>".into(),
                location: "<unknown>".into(),
            })),
    }
}

// ------------------------------------------------------------------------------------------
// Fresh-thread runner

pub const RUN_STACK: usize = 1 << 30;

/// Execute `f` on a brand-new thread (fresh TLS ⇒ fresh hash keys derived from the epoch) with a
/// 1 GiB stack. A panic escaping `f` is returned as Err.
pub fn on_fresh_thread<T: Send + 'static>(
    name: &str,
    f: impl FnOnce() -> T + Send + 'static,
) -> Result<T, PanicInfo> {
    let handle = std::thread::Builder::new()
        .name(name.to_string())
        .stack_size(RUN_STACK)
        .spawn(move || guard(f))
        .expect("spawn run thread");
    match handle.join() {
        Ok(r) => r,
        Err(_) => Err(PanicInfo {
            message: "<run thread died>".into(),
            location: "<unknown>".into(),
        }),
    }
}

pub fn hash_str(s: &str) -> u64 {
    fnv(s.as_bytes())
}

pub fn hash_bytes(b: &[u8]) -> u64 {
    fnv(b)
}

pub fn short(s: &str, n: usize) -> String {
    if s.len() <= n {
        s.to_string()
    } else {
        let mut end = n;
        while !s.is_char_boundary(end) {
            end -= 1;
        }
        format!("{}…(+{} bytes)", &s[..end], s.len() - end)
    }
}

pub fn jstr(v: &Value, key: &str) -> String {
    v.get(key)
        .and_then(|x| x.as_str())
        .unwrap_or_default()
        .to_string()
}

pub fn ju64(v: &Value, key: &str) -> u64 {
    v.get(key).and_then(|x| x.as_u64()).unwrap_or(0)
}

pub fn ji64(v: &Value, key: &str) -> i64 {
    v.get(key).and_then(|x| x.as_i64()).unwrap_or(0)
}

pub fn sample_json(kind: &str, fields: Value) -> Value {
    json!({ "kind": kind, "case": fields })
}
