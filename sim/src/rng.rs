//! The one PRNG of the simulator. Every choice of a run is drawn from an `Rng`
//! initialised from `mix(VERIF_SEED, engine, k)`, in a fixed draw order. Logging and
//! evidence collection never draw from it.

#[derive(Clone, Debug)]
pub struct Rng(u64);

pub fn splitmix(mut z: u64) -> u64 {
    z = z.wrapping_add(0x9E37_79B9_7F4A_7C15);
    z = (z ^ (z >> 30)).wrapping_mul(0xBF58_476D_1CE4_E5B9);
    z = (z ^ (z >> 27)).wrapping_mul(0x94D0_49BB_1331_11EB);
    z ^ (z >> 31)
}

pub fn mix(a: u64, b: u64, c: u64) -> u64 {
    splitmix(splitmix(splitmix(a) ^ b.rotate_left(21)) ^ c.rotate_left(43))
}

pub fn fnv(bytes: &[u8]) -> u64 {
    let mut h: u64 = 0xcbf2_9ce4_8422_2325;
    for b in bytes {
        h ^= *b as u64;
        h = h.wrapping_mul(0x0000_0100_0000_01B3);
    }
    h
}

impl Rng {
    pub fn new(seed: u64) -> Rng {
        Rng(splitmix(seed ^ 0x5851_F42D_4C95_7F2D))
    }

    pub fn next_u64(&mut self) -> u64 {
        self.0 = self.0.wrapping_add(0x9E37_79B9_7F4A_7C15);
        let mut z = self.0;
        z = (z ^ (z >> 30)).wrapping_mul(0xBF58_476D_1CE4_E5B9);
        z = (z ^ (z >> 27)).wrapping_mul(0x94D0_49BB_1331_11EB);
        z ^ (z >> 31)
    }

    /// Uniform in 0..n (n > 0).
    pub fn below(&mut self, n: u64) -> u64 {
        debug_assert!(n > 0);
        if n == 0 {
            return 0;
        }
        // Multiply-shift; bias is irrelevant for a search heuristic but keep it tiny.
        ((self.next_u64() as u128 * n as u128) >> 64) as u64
    }

    pub fn usize_below(&mut self, n: usize) -> usize {
        self.below(n as u64) as usize
    }

    /// Uniform in lo..=hi.
    pub fn range(&mut self, lo: i64, hi: i64) -> i64 {
        debug_assert!(lo <= hi);
        let span = (hi as i128 - lo as i128 + 1) as u128;
        let r = (self.next_u64() as u128 * span) >> 64;
        (lo as i128 + r as i128) as i64
    }

    pub fn chance(&mut self, num: u64, den: u64) -> bool {
        self.below(den) < num
    }

    pub fn pick<'a, T>(&mut self, xs: &'a [T]) -> &'a T {
        &xs[self.usize_below(xs.len())]
    }

    pub fn shuffle<T>(&mut self, xs: &mut [T]) {
        for i in (1..xs.len()).rev() {
            let j = self.usize_below(i + 1);
            xs.swap(i, j);
        }
    }

    pub fn fork(&mut self) -> Rng {
        Rng::new(self.next_u64())
    }

    pub fn bytes(&mut self, n: usize) -> Vec<u8> {
        (0..n).map(|_| self.next_u64() as u8).collect()
    }
}
