//! `dst` — deterministic simulation with fault injection for aiken.
//!
//!   dst check <engine|property> [--tier quick|thorough] [--seed N] [--jobs J] [--runs N]
//!   dst worker <engine> <tier> <seed> <k,k,k>          (internal)
//!   dst replay <file>
//!   dst hashprobe                                       (proves the hash-seed seam)

#![allow(dead_code)]

mod blueprint;
mod budget;
mod build;
mod common;
mod debug;
mod genproj;
mod project;
mod proptest;
mod driver;
mod hashseed;
mod ledger_params;
mod rng;
mod sched;
mod storage;
mod tx;

use common::*;
use driver::Engine;

static BUDGET: budget::BudgetEngine = budget::BudgetEngine;
static BUILD: build::BuildEngine = build::BuildEngine;
static SCHED: sched::SchedEngine = sched::SchedEngine;
static PROPT: proptest::PropEngine = proptest::PropEngine;
static STORAGE: storage::StorageEngine = storage::StorageEngine;
static BLUEPRINT: blueprint::BlueprintEngine = blueprint::BlueprintEngine;
static TX: tx::TxEngine = tx::TxEngine;

fn engines() -> Vec<&'static dyn Engine> {
    vec![&BUDGET, &BUILD, &SCHED, &PROPT, &STORAGE, &BLUEPRINT, &TX]
}

fn find_engine(name: &str) -> Option<&'static dyn Engine> {
    engines()
        .into_iter()
        .find(|e| e.name() == name || e.property() == name)
}

fn main() {
    install_panic_hook();
    let args: Vec<String> = std::env::args().collect();
    let code = match args.get(1).map(|s| s.as_str()) {
        Some("check") => {
            let Some(engine) = args.get(2).and_then(|n| find_engine(n)) else {
                eprintln!("unknown engine");
                std::process::exit(2);
            };
            let mut tier = std::env::var("VERIF_TIER")
                .ok()
                .and_then(|t| Tier::parse(&t))
                .unwrap_or(Tier::Quick);
            let mut seed = std::env::var("VERIF_SEED")
                .ok()
                .and_then(|s| s.parse::<u64>().ok())
                .unwrap_or(DEFAULT_SEED);
            let mut jobs = None;
            let mut runs = None;
            let mut i = 3;
            while i < args.len() {
                match args[i].as_str() {
                    "--tier" => {
                        tier = Tier::parse(&args[i + 1]).expect("tier");
                        i += 1;
                    }
                    "--seed" => {
                        seed = args[i + 1].parse().expect("seed");
                        i += 1;
                    }
                    "--jobs" => {
                        jobs = Some(args[i + 1].parse().expect("jobs"));
                        i += 1;
                    }
                    "--runs" => {
                        runs = Some(args[i + 1].parse().expect("runs"));
                        i += 1;
                    }
                    "quick" => tier = Tier::Quick,
                    "thorough" => tier = Tier::Thorough,
                    other => {
                        eprintln!("unknown argument {other}");
                        std::process::exit(2);
                    }
                }
                i += 1;
            }
            driver::check_main(
                engine,
                driver::CheckArgs {
                    tier,
                    seed,
                    jobs,
                    runs,
                },
            )
        }
        Some("worker") => {
            let engine = find_engine(&args[2]).expect("engine");
            let tier = Tier::parse(&args[3]).expect("tier");
            let seed: u64 = args[4].parse().expect("seed");
            let ks: Vec<u64> = args[5]
                .split(',')
                .filter(|s| !s.is_empty())
                .map(|s| s.parse().expect("k"))
                .collect();
            driver::worker_main(engine, tier, seed, ks);
            0
        }
        Some("replay") => driver::replay_main(&engines(), &args[2]),
        Some("tryproj") => {
            let seed: u64 = args[2].parse().expect("seed");
            debug::tryproj(seed, args.get(3).is_some())
        }
        Some("probe-alltypes") => build::probe_alltypes_main(&args[2]),
        Some("costprobe") => debug::costprobe(),
        Some("nestdump") => {
            // developer aid: write the input of a nesting case to stdout
            use std::io::Write;
            match storage::nest_input(&args[2], args[3].parse().expect("depth")) {
                Some((_, b)) => {
                    let _ = std::io::stdout().write_all(&b);
                    0
                }
                None => 2,
            }
        }
        Some("nestcase") => storage::nestcase_main(&args[2], args[3].parse().expect("depth")),
        Some("inst") => debug::inst(&args[2], &args[3], args.get(4).map(|s| s.as_str()).unwrap_or("")),
        Some("hashprobe") => {
            let mut orders = std::collections::BTreeSet::new();
            let mut stable = true;
            for epoch in 1..=16u64 {
                let mut seen = vec![];
                for _ in 0..2 {
                    hashseed::set_epoch(epoch);
                    let o = on_fresh_thread("run", hashseed::probe_order).unwrap();
                    hashseed::clear_epoch();
                    seen.push(o);
                }
                stable &= seen[0] == seen[1];
                orders.insert(seen[0].clone());
            }
            println!(
                "hashprobe: same epoch => same order: {stable}; 16 epochs => {} distinct orders; seam served {} calls",
                orders.len(),
                hashseed::served()
            );
            if stable && orders.len() > 4 { 0 } else { 2 }
        }
        _ => {
            eprintln!("usage: dst check <engine> [--tier quick|thorough] [--seed N] | replay <file> | hashprobe");
            2
        }
    };
    std::process::exit(code);
}
