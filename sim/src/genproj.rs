//! W3/W4: seeded generator of multi-module Aiken projects (no dependencies — the standard library
//! cannot be fetched here, so a small fuzz library written for this harness ships with each
//! project).
//!
//! Generator rules that come from probes on the unchanged tree:
//!  (a) shared constants contain `Pairs`, nested lists and tuples and are consumed by *recursive*
//!      functions, otherwise the optimiser folds the test to a constant and nothing shareable
//!      survives into the program;
//!  (b) different modules declare types, constants and functions with the same local name and
//!      different shapes, so any cache keyed too coarsely becomes history dependent;
//!  (c) at least two data modules, two test modules and two validator modules, so that hash
//!      epochs really permute registration and compilation order.

use crate::project::ProjSpec;
use crate::rng::Rng;

pub const FUZZ_LIB: &str = r#"use aiken/builtin

pub fn byte() -> Fuzzer<Int> {
  fn(prng: PRNG) -> Option<(PRNG, Int)> {
    when prng is {
      Seeded { seed, choices } -> {
        let choice = builtin.index_bytearray(seed, 0)
        Some(
          (
            Seeded {
              seed: builtin.blake2b_256(seed),
              choices: builtin.cons_bytearray(choice, choices),
            },
            choice,
          ),
        )
      }
      Replayed { cursor, choices } ->
        if cursor >= 1 {
          let cursor = cursor - 1
          Some(
            (
              Replayed { choices, cursor },
              builtin.index_bytearray(choices, cursor),
            ),
          )
        } else {
          None
        }
    }
  }
}

/// Uniform-ish in 0..k; on replay a recorded choice outside 0..k is rejected (None).
pub fn below(k: Int) -> Fuzzer<Int> {
  fn(prng: PRNG) -> Option<(PRNG, Int)> {
    when prng is {
      Seeded { seed, choices } -> {
        let choice = builtin.index_bytearray(seed, 0) % k
        Some(
          (
            Seeded {
              seed: builtin.blake2b_256(seed),
              choices: builtin.cons_bytearray(choice, choices),
            },
            choice,
          ),
        )
      }
      Replayed { cursor, choices } ->
        if cursor >= 1 {
          let cursor = cursor - 1
          let choice = builtin.index_bytearray(choices, cursor)
          if choice < k {
            Some((Replayed { choices, cursor }, choice))
          } else {
            None
          }
        } else {
          None
        }
    }
  }
}

pub fn constant(a: a) -> Fuzzer<a> {
  fn(s0) { Some((s0, a)) }
}

pub fn and_then(fuzz_a: Fuzzer<a>, f: fn(a) -> Fuzzer<b>) -> Fuzzer<b> {
  fn(s0) {
    when fuzz_a(s0) is {
      Some((s1, a)) -> f(a)(s1)
      None -> None
    }
  }
}

pub fn map(fuzz_a: Fuzzer<a>, f: fn(a) -> b) -> Fuzzer<b> {
  fn(s0) {
    when fuzz_a(s0) is {
      Some((s1, a)) -> Some((s1, f(a)))
      None -> None
    }
  }
}

pub fn map2(fuzz_a: Fuzzer<a>, fuzz_b: Fuzzer<b>, f: fn(a, b) -> c) -> Fuzzer<c> {
  fn(s0) {
    when fuzz_a(s0) is {
      Some((s1, a)) ->
        when fuzz_b(s1) is {
          Some((s2, b)) -> Some((s2, f(a, b)))
          None -> None
        }
      None -> None
    }
  }
}

pub fn bool() -> Fuzzer<Bool> {
  byte() |> map(fn(n) { n % 2 == 0 })
}

pub fn pair(fuzz_a: Fuzzer<a>, fuzz_b: Fuzzer<b>) -> Fuzzer<(a, b)> {
  map2(fuzz_a, fuzz_b, fn(a, b) { (a, b) })
}

pub fn list_n(elem: Fuzzer<a>, n: Int) -> Fuzzer<List<a>> {
  if n <= 0 {
    constant([])
  } else {
    map2(elem, list_n(elem, n - 1), fn(head, tail) { [head, ..tail] })
  }
}

/// The first choice decides how many further choices are read.
pub fn list_len_first(elem: Fuzzer<a>) -> Fuzzer<List<a>> {
  below(6) |> and_then(fn(n) { list_n(elem, n) })
}

pub fn list_coin(elem: Fuzzer<a>) -> Fuzzer<List<a>> {
  bool()
    |> and_then(
        fn(continue) {
          if continue {
            map2(elem, list_coin(elem), fn(head, tail) { [head, ..tail] })
          } else {
            constant([])
          }
        },
      )
}

fn burn(n: Int) -> Int {
  if n <= 0 {
    0
  } else {
    burn(n - 1)
  }
}

/// One draw, then enough work that a single generation costs more than the default script
/// budget (generation and replay must both be run under the same, unlimited, budget).
pub fn heavy() -> Fuzzer<Int> {
  byte() |> map(fn(x) { burn(20000) + x })
}

/// Reads two choices, uses only the first (trailing unused choice).
pub fn wasteful() -> Fuzzer<Int> {
  map2(byte(), byte(), fn(a, _b) { a })
}

/// Errors (instead of returning) for large draws: exercises the fuzzer-error path.
pub fn fragile() -> Fuzzer<Int> {
  byte()
    |> map(
        fn(n) {
          if n > 250 {
            fail @"fragile fuzzer"
          } else {
            n
          }
        },
      )
}

/// The first draw bounds the second.
pub fn dependent() -> Fuzzer<Int> {
  byte() |> and_then(fn(n) { below(n + 1) })
}

pub fn label(str: String) -> Void {
  builtin.debug(builtin.append_string(@"\0", str), Void)
}
"#;

#[derive(Clone, Debug)]
pub struct DataModule {
    pub name: String,
    pub item_variant: u64,
    pub table: Vec<(String, i64)>,
    pub nested: Vec<Vec<i64>>,
    pub limit: i64,
    pub default: i64,
    pub items: Vec<(u64, i64)>, // (constructor choice, payload)
    pub rec_extra: bool,
}

const NAMES: &[&str] = &[
    "acc", "bal", "cfg", "dex", "esc", "fee", "gov", "hub", "idx", "key", "lot", "mkt", "nft",
    "ora", "pol", "qty", "reg", "stk", "tre", "usr", "vlt", "wal", "zed", "yld",
];

fn item_type(variant: u64) -> &'static str {
    match variant {
        0 => "pub type Item {\n  Plain\n  Tagged { tag: ByteArray, n: Int }\n  Boxed(Int)\n}\n",
        1 => "pub type Item {\n  Item { a: Int, b: Bool }\n}\n",
        _ => "pub type Item {\n  Left(ByteArray)\n  Right(List<Int>)\n}\n",
    }
}

fn item_size_fn(variant: u64) -> &'static str {
    match variant {
        0 => "pub fn size(i: Item) -> Int {\n  when i is {\n    Plain -> 1\n    Tagged { n, .. } -> n + 2\n    Boxed(n) -> n\n  }\n}\n",
        1 => "pub fn size(i: Item) -> Int {\n  if i.b {\n    i.a\n  } else {\n    0 - i.a\n  }\n}\n",
        _ => "pub fn size(i: Item) -> Int {\n  when i is {\n    Left(bytes) -> builtin.length_of_bytearray(bytes)\n    Right(xs) -> total(xs)\n  }\n}\n",
    }
}

fn item_literal(variant: u64, choice: u64, payload: i64) -> (String, i64) {
    match variant {
        0 => match choice % 3 {
            0 => ("Plain".into(), 1),
            1 => (
                format!("Tagged {{ tag: \"t{payload}\", n: {payload} }}"),
                payload + 2,
            ),
            _ => (format!("Boxed({payload})"), payload),
        },
        1 => {
            let b = choice % 2 == 0;
            (
                format!("Item {{ a: {payload}, b: {} }}", if b { "True" } else { "False" }),
                if b { payload } else { -payload },
            )
        }
        _ => match choice % 2 {
            0 => {
                let s = "x".repeat((payload % 5) as usize);
                (format!("Left(\"{s}\")"), (payload % 5) as i64)
            }
            _ => (format!("Right([{payload}, 1])"), payload + 1),
        },
    }
}

impl DataModule {
    fn generate(rng: &mut Rng, name: String) -> DataModule {
        let n_table = 2 + rng.usize_below(4);
        let table = (0..n_table)
            .map(|i| (format!("k{i}"), rng.range(0, 50)))
            .collect();
        let n_nested = 1 + rng.usize_below(4);
        let nested = (0..n_nested)
            .map(|_| {
                let n = rng.usize_below(4);
                (0..n).map(|_| rng.range(0, 9)).collect()
            })
            .collect();
        let item_variant = rng.below(3);
        let n_items = 1 + rng.usize_below(4);
        let items = (0..n_items)
            .map(|_| (rng.below(6), rng.range(0, 20)))
            .collect();
        DataModule {
            name,
            item_variant,
            table,
            nested,
            limit: rng.range(1, 100),
            default: rng.range(-5, 5),
            items,
            rec_extra: rng.chance(1, 2),
        }
    }

    pub fn table_len(&self) -> i64 {
        self.table.len() as i64
    }
    pub fn nested_total(&self) -> i64 {
        self.nested.iter().flatten().sum()
    }
    pub fn items_weight(&self) -> i64 {
        self.items
            .iter()
            .map(|(c, p)| item_literal(self.item_variant, *c, *p).1)
            .sum()
    }

    fn source(&self, acc_style: bool) -> String {
        let mut s = String::new();
        s.push_str("use aiken/builtin\n\n");
        s.push_str(item_type(self.item_variant));
        s.push('\n');
        if self.rec_extra {
            s.push_str("pub type Rec {\n  owner: ByteArray,\n  limit: Int,\n  extra: List<Int>,\n}\n\n");
        } else {
            s.push_str("pub type Rec {\n  owner: ByteArray,\n  limit: Int,\n}\n\n");
        }
        // public types that only matter to `aiken build --all-types`: a generic record used at a
        // nested instance by one type and at a flat one by another, and a record with a field that
        // has no data schema, held by another record
        if self.limit % 2 == 0 {
            s.push_str("pub type Two<a> {\n  l: a,\n  r: a,\n}\n\npub type HoldsTwo {\n  a: Two<Int>,\n}\n\npub type HoldsNested {\n  b: Two<Two<Int>>,\n}\n\n");
        }
        if self.limit % 3 == 0 {
            s.push_str("pub type Curve {\n  p: G1Element,\n}\n\npub type HoldsCurve {\n  f: Curve,\n}\n\n");
        }
        let table = self
            .table
            .iter()
            .map(|(k, v)| format!("Pair(\"{k}\", {v})"))
            .collect::<Vec<_>>()
            .join(", ");
        s.push_str(&format!(
            "pub const table: Pairs<ByteArray, Int> = [{table}]\n\n"
        ));
        let nested = self
            .nested
            .iter()
            .map(|xs| {
                format!(
                    "[{}]",
                    xs.iter().map(|x| x.to_string()).collect::<Vec<_>>().join(", ")
                )
            })
            .collect::<Vec<_>>()
            .join(", ");
        s.push_str(&format!("pub const nested: List<List<Int>> = [{nested}]\n\n"));
        s.push_str(&format!(
            "pub const tup: (Int, ByteArray, List<Int>) = ({}, \"{}\", [{}, 2])\n\n",
            self.limit, self.name, self.default
        ));
        let items = self
            .items
            .iter()
            .map(|(c, p)| item_literal(self.item_variant, *c, *p).0)
            .collect::<Vec<_>>()
            .join(", ");
        s.push_str(&format!("pub const items: List<Item> = [{items}]\n\n"));
        s.push_str(&format!("pub const limit: Int = {}\n\n", self.limit));
        s.push_str(&format!(
            "pub const sample_rec: Rec =\n  Rec {{ owner: \"{}\", limit: {}{} }}\n\n",
            self.name,
            self.limit,
            if self.rec_extra { ", extra: [1, 2]" } else { "" }
        ));
        // The same multi-line `expect` at two nesting depths: its failure-trace message is equal
        // modulo whitespace but not byte-identical (rule (b): anything keyed too coarsely —
        // here by whitespace-stripped text — becomes history dependent).
        s.push_str("pub fn must(r: Option<Rec>) -> Int {\n  expect Some(Rec {\n    limit,\n    ..\n  }) = r\n  limit\n}\n\n");
        s.push_str("pub fn must_when(flag: Bool, r: Option<Rec>) -> Int {\n  if flag {\n    expect Some(Rec {\n      limit,\n      ..\n    }) = r\n    limit\n  } else {\n    0\n  }\n}\n\n");
        if acc_style {
            s.push_str("pub fn len(xs: List<a>) -> Int {\n  do_len(xs, 0)\n}\n\nfn do_len(xs: List<a>, acc: Int) -> Int {\n  when xs is {\n    [] -> acc\n    [_, ..rest] -> do_len(rest, acc + 1)\n  }\n}\n\n");
        } else {
            s.push_str("pub fn len(xs: List<a>) -> Int {\n  when xs is {\n    [] -> 0\n    [_, ..rest] -> 1 + len(rest)\n  }\n}\n\n");
        }
        s.push_str("pub fn total(xs: List<Int>) -> Int {\n  when xs is {\n    [] -> 0\n    [x, ..rest] -> x + total(rest)\n  }\n}\n\n");
        s.push_str(&format!(
            "pub fn lookup(xs: Pairs<ByteArray, Int>, k: ByteArray) -> Int {{\n  when xs is {{\n    [] -> {}\n    [Pair(k2, v), ..rest] ->\n      if k2 == k {{\n        v\n      }} else {{\n        lookup(rest, k)\n      }}\n  }}\n}}\n\n",
            self.default
        ));
        s.push_str(item_size_fn(self.item_variant));
        s.push('\n');
        // two mutually recursive functions with several dependencies outside the cycle (the code
        // generator merges them into one cyclic function and hoists the dependencies around it)
        s.push_str("pub fn ping(n: Int, xs: List<Int>) -> Int {\n  if n <= 0 {\n    total(xs) + lookup(table, \"k\")\n  } else {\n    pong(n - 1, xs) + len(xs)\n  }\n}\n\npub fn pong(n: Int, xs: List<Int>) -> Int {\n  if n <= 0 {\n    len(xs) + flatten_total(nested)\n  } else {\n    ping(n - 1, xs) + total(xs)\n  }\n}\n\n");
        s.push_str("pub fn flatten_total(xss: List<List<Int>>) -> Int {\n  when xss is {\n    [] -> 0\n    [xs, ..rest] -> total(xs) + flatten_total(rest)\n  }\n}\n\n");
        s.push_str("pub fn weigh(its: List<Item>) -> Int {\n  when its is {\n    [] -> 0\n    [i, ..rest] -> size(i) + weigh(rest)\n  }\n}\n\n");
        s.push_str("pub fn check_rec(r: Rec, bound: Int) -> Bool {\n  r.limit <= bound || builtin.length_of_bytearray(r.owner) > 64\n}\n");
        s
    }
}

fn test_module(rng: &mut Rng, idx: usize, data: &[DataModule], n_tests: usize) -> String {
    let mut s = String::new();
    let a = &data[rng.usize_below(data.len())];
    let b = &data[rng.usize_below(data.len())];
    let mut used = vec![a.name.clone()];
    if b.name != a.name {
        used.push(b.name.clone());
    }
    for u in &used {
        s.push_str(&format!("use {u}\n"));
    }
    s.push_str("use fuzz\n\n");
    for t in 0..n_tests {
        let d = if rng.chance(1, 2) { a } else { b };
        let o = if rng.chance(1, 2) { a } else { b };
        let n = &d.name;
        let on = &o.name;
        let truth = rng.chance(3, 4);
        let off = if truth { 0 } else { 1 + rng.range(0, 3) };
        let body = match rng.below(15) {
            12 => format!("test t{idx}_{t}_must() {{\n  {n}.must(Some({n}.sample_rec)) == {}\n}}\n", d.limit + off),
            13 => format!("test t{idx}_{t}_must_when() {{\n  {n}.must_when(True, Some({n}.sample_rec)) + {on}.must_when(False, None) == {}\n}}\n", d.limit + off),
            14 => format!("test t{idx}_{t}_must_fails() fail {{\n  {n}.must(None) == {}\n}}\n", d.limit),
            0 => format!("test t{idx}_{t}_len() {{\n  {n}.len({n}.table) == {}\n}}\n", d.table_len() + off),
            1 => {
                let (k, v) = &d.table[rng.usize_below(d.table.len())];
                format!("test t{idx}_{t}_lookup() {{\n  {n}.lookup({n}.table, \"{k}\") == {}\n}}\n", v + off)
            }
            2 => format!(
                "test t{idx}_{t}_cross() {{\n  {n}.flatten_total({n}.nested) + {on}.len({on}.table) == {}\n}}\n",
                d.nested_total() + o.table_len() + off
            ),
            3 => format!("test t{idx}_{t}_weigh() {{\n  {n}.weigh({n}.items) == {}\n}}\n", d.items_weight() + off),
            4 => format!(
                "test t{idx}_{t}_tup() {{\n  let (a, _, rest) = {n}.tup\n  a + {n}.total(rest) == {}\n}}\n",
                d.limit + d.default + 2 + off
            ),
            5 => format!(
                "test t{idx}_{t}_expected_failure() fail {{\n  {n}.len({n}.nested) == {}\n}}\n",
                d.nested.len() as i64 + 1 + off
            ),
            6 => format!(
                "test t{idx}_{t}_missing() {{\n  {n}.lookup({on}.table, \"nope\") == {}\n}}\n",
                d.default + off
            ),
            7 => format!(
                "test p{idx}_{t}_sum(x via fuzz.byte()) {{\n  x + {n}.len({n}.table) < {}\n}}\n",
                150 + rng.range(0, 120)
            ),
            8 => format!(
                "test p{idx}_{t}_list(xs via fuzz.list_len_first(fuzz.below(10))) {{\n  {n}.total(xs) + {on}.len({on}.nested) <= {}\n}}\n",
                8 + rng.range(0, 30)
            ),
            9 => format!(
                "test p{idx}_{t}_ok(x via fuzz.below(7)) {{\n  x + {n}.limit >= {n}.limit\n}}\n"
            ),
            10 => format!(
                "test p{idx}_{t}_pairs(p via fuzz.pair(fuzz.below(20), fuzz.bool())) {{\n  let (x, flag) = p\n  fuzz.label(\n    if flag {{\n      @\"even\"\n    }} else {{\n      @\"odd\"\n    }},\n  )\n  x + {n}.weigh({n}.items) != {}\n}}\n",
                d.items_weight() + rng.range(0, 25)
            ),
            _ => format!(
                "test p{idx}_{t}_coin(xs via fuzz.list_coin(fuzz.byte())) fail once {{\n  {n}.len(xs) < {}\n}}\n",
                1 + rng.range(0, 3)
            ),
        };
        s.push_str(&body);
        s.push('\n');
    }
    // Benchmarks (run by `aiken bench` through the same parallel runner as tests).
    let n_bench = rng.usize_below(3);
    if n_bench > 0 {
        s.push_str(&format!(
            "fn sample_list{idx}(size: Int) -> Fuzzer<List<Int>> {{\n  fuzz.list_n(fuzz.below(10), size)\n}}\n\n"
        ));
        for bi in 0..n_bench {
            let d = if rng.chance(1, 2) { a } else { b };
            s.push_str(&format!(
                "bench b{idx}_{bi}(xs via sample_list{idx}) {{\n  {n}.total(xs) + {n}.len({n}.table)\n}}\n\n",
                n = d.name
            ));
        }
    }
    s
}

fn validator_module(rng: &mut Rng, idx: usize, data: &[DataModule]) -> String {
    let a = &data[rng.usize_below(data.len())];
    let b = &data[rng.usize_below(data.len())];
    let mut s = String::new();
    s.push_str(&format!("use {}\n", a.name));
    if b.name != a.name {
        s.push_str(&format!("use {}\n", b.name));
    }
    s.push('\n');
    let n_validators = 1 + rng.usize_below(2);
    for v in 0..n_validators {
        let n_params = rng.usize_below(4);
        let mut params = vec![];
        let mut uses = vec![];
        for p in 0..n_params {
            match rng.below(6) {
                0 => {
                    params.push(format!("p{p}: Int"));
                    uses.push(format!("p{p}"));
                }
                1 => {
                    params.push(format!("p{p}: ByteArray"));
                    uses.push(format!("{}.lookup({}.table, p{p})", a.name, a.name));
                }
                2 => {
                    params.push(format!("p{p}: {}.Rec", a.name));
                    uses.push(format!("p{p}.limit"));
                }
                3 => {
                    params.push(format!("p{p}: {}.Item", b.name));
                    uses.push(format!("{}.size(p{p})", b.name));
                }
                4 => {
                    params.push(format!("p{p}: List<Int>"));
                    uses.push(format!("{}.total(p{p})", a.name));
                }
                _ => {
                    params.push(format!("p{p}: (Int, ByteArray)"));
                    uses.push(format!("p{p}.1st"));
                }
            }
        }
        let psum = if uses.is_empty() {
            "0".to_string()
        } else {
            uses.join(" + ")
        };
        let plist = if params.is_empty() {
            String::new()
        } else {
            format!("({})", params.join(", "))
        };
        // half of the validators carry a name that another module's validator may carry too
        let vname = if rng.chance(1, 2) { format!("v{idx}_{v}") } else { format!("main{v}") };
        s.push_str(&format!("validator {vname}{plist} {{\n"));
        let handlers = 1 + rng.usize_below(3);
        s.push_str(&format!(
            "  spend(datum: Option<{an}.Rec>, redeemer: Int, _own_ref: Data, _self: Data) {{\n    /// the datum must be present\n    expect Some(d) = datum\n    {an}.check_rec(d, redeemer + {psum}) && {bn}.len({bn}.table) >= {k} && {an}.must_when(redeemer > 5, datum) >= 0 && {bn}.ping(redeemer, [1, 2, 3]) >= 0 - 1000000\n  }}\n\n",
            an = a.name,
            bn = b.name,
            k = rng.range(0, 4)
        ));
        if handlers >= 2 {
            s.push_str(&format!(
                "  mint(redeemer: {bn}.Item, _policy_id: Data, _self: Data) {{\n    {bn}.size(redeemer) + {an}.flatten_total({an}.nested) + {psum} > {k}\n  }}\n\n",
                an = a.name,
                bn = b.name,
                k = rng.range(0, 30)
            ));
        }
        if handlers >= 3 {
            s.push_str(&format!(
                "  withdraw(redeemer: List<Int>, _account: Data, _self: Data) {{\n    {an}.total(redeemer) + {psum} == {an}.weigh({an}.items)\n  }}\n\n",
                an = a.name
            ));
        }
        s.push_str("  else(_) {\n    fail\n  }\n}\n\n");
    }
    s
}

pub struct Generated {
    pub spec: ProjSpec,
    pub data_modules: usize,
    pub test_modules: usize,
    pub validator_modules: usize,
}

pub fn generate(rng: &mut Rng) -> Generated {
    let n_data = 2 + rng.usize_below(3);
    let n_tests = 2 + rng.usize_below(2);
    let n_validators = 2 + rng.usize_below(2);
    let mut pool: Vec<&str> = NAMES.to_vec();
    rng.shuffle(&mut pool);
    let mut data = vec![];
    for i in 0..n_data {
        let name = format!("{}{}", pool[i], rng.below(100));
        data.push(DataModule::generate(rng, name));
    }
    let mut files: Vec<(String, String)> = vec![];
    files.push(("lib/fuzz.ak".into(), FUZZ_LIB.into()));
    for d in &data {
        let acc = rng.chance(1, 2);
        files.push((format!("lib/{}.ak", d.name), d.source(acc)));
    }
    // One project in eight has a test module with several dozen tests (anything that switches
    // strategy above some number of tests needs that many).
    let crowded = rng.chance(1, 8);
    for t in 0..n_tests {
        let n = if crowded && t == 0 { 36 + rng.usize_below(30) } else { 3 + rng.usize_below(5) };
        let name = format!("{}_tests{}", pool[n_data + t], rng.below(100));
        files.push((format!("lib/{name}.ak"), test_module(rng, t, &data, n)));
    }
    for v in 0..n_validators {
        let name = format!("{}_val{}", pool[n_data + n_tests + v], rng.below(100));
        files.push((
            format!("validators/{name}.ak"),
            validator_module(rng, v, &data),
        ));
    }
    files.sort();
    // aiken.toml accepts only plutus = "v3" on this tree (validate_v3_only).
    let plutus = "v3";
    let id = format!("generated/{:016x}", rng.next_u64());
    let toml = format!(
        "name = \"sim/proj\"\nversion = \"0.0.0\"\nplutus = \"{plutus}\"\ndescription = \"generated\"\n"
    );
    Generated {
        spec: ProjSpec { id, toml, files },
        data_modules: n_data,
        test_modules: n_tests,
        validator_modules: n_validators,
    }
}
