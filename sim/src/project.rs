//! Shared project machinery: in-memory project specs (acceptance projects of the tree, generated
//! projects), the run's simulated disk (a tmpfs directory whose files are created in a seeded
//! order), an event listener that captures test results, and the *observables* of a build / check
//! that engines compare.

use crate::common::*;
use aiken_lang::ast::{TraceLevel, Tracing};
use aiken_lang::test_framework::{PropertyTestResult, TestResult, UnitTestResult};
use aiken_project::telemetry::{CoverageMode, Event, EventListener};
use aiken_project::{Project, options::BlueprintExport};
use serde::{Deserialize, Serialize};
use std::cell::RefCell;
use std::collections::BTreeMap;
use std::path::{Path, PathBuf};
use std::rc::Rc;
use std::sync::OnceLock;
use std::sync::atomic::{AtomicU64, Ordering};
use uplc::ast::{DeBruijn, Name, Program};

#[derive(Clone, Debug, Serialize, Deserialize, PartialEq)]
pub struct ProjSpec {
    pub id: String,
    pub toml: String,
    /// (path relative to the project root, contents), in canonical (sorted) order.
    pub files: Vec<(String, String)>,
}

impl ProjSpec {
    pub fn hash(&self) -> u64 {
        let mut h = hash_str(&self.toml);
        for (p, c) in &self.files {
            h = crate::rng::mix(h, hash_str(p), hash_str(c));
        }
        h
    }
    pub fn modules(&self) -> usize {
        self.files.len()
    }
}

fn collect_ak(root: &Path, sub: &str, out: &mut Vec<(String, String)>) {
    let dir = root.join(sub);
    if !dir.is_dir() {
        return;
    }
    for e in walkdir::WalkDir::new(&dir)
        .sort_by_file_name()
        .into_iter()
        .filter_map(|e| e.ok())
    {
        if e.file_type().is_file() && e.path().extension().is_some_and(|x| x == "ak") {
            let rel = e
                .path()
                .strip_prefix(root)
                .unwrap()
                .to_string_lossy()
                .to_string();
            if let Ok(c) = std::fs::read_to_string(e.path()) {
                out.push((rel, c));
            }
        }
    }
}

static ACCEPTANCE: OnceLock<Vec<ProjSpec>> = OnceLock::new();

/// The dependency-free projects under examples/acceptance_tests (W1) of the current tree.
pub fn acceptance_projects() -> &'static Vec<ProjSpec> {
    ACCEPTANCE.get_or_init(|| {
        let root = PathBuf::from(format!("{REPO_DIR}/examples/acceptance_tests"));
        let mut dirs: Vec<PathBuf> = std::fs::read_dir(&root)
            .map(|rd| rd.filter_map(|e| e.ok()).map(|e| e.path()).collect())
            .unwrap_or_default();
        dirs.sort();
        let mut out = vec![];
        for d in dirs {
            let Ok(toml) = std::fs::read_to_string(d.join("aiken.toml")) else {
                continue;
            };
            if toml.contains("[[dependencies]]") {
                continue;
            }
            let mut files = vec![];
            collect_ak(&d, "lib", &mut files);
            collect_ak(&d, "validators", &mut files);
            collect_ak(&d, "env", &mut files);
            if files.is_empty() {
                continue;
            }
            files.sort();
            out.push(ProjSpec {
                id: format!("acceptance/{}", d.file_name().unwrap().to_string_lossy()),
                toml,
                files,
            });
        }
        out
    })
}

// ------------------------------------------------------------------------------------------
// Simulated disk

static DISK_COUNTER: AtomicU64 = AtomicU64::new(0);

pub struct RunDisk {
    pub root: PathBuf,
}

impl RunDisk {
    pub fn new() -> RunDisk {
        let n = DISK_COUNTER.fetch_add(1, Ordering::SeqCst);
        let base = if Path::new("/dev/shm").is_dir() {
            PathBuf::from("/dev/shm")
        } else {
            std::env::temp_dir()
        };
        let root = base.join(format!("aiken-dst-{}-{}", std::process::id(), n));
        let _ = std::fs::remove_dir_all(&root);
        std::fs::create_dir_all(&root).expect("create run disk");
        RunDisk { root }
    }

    /// Write the project; `order` is a permutation of the file indices (creation order decides
    /// tmpfs `readdir` order, hence the order `walkdir` discovers modules in).
    pub fn materialize(&self, spec: &ProjSpec, order: &[usize]) {
        std::fs::write(self.root.join("aiken.toml"), &spec.toml).expect("write aiken.toml");
        for i in order {
            let (rel, content) = &spec.files[*i];
            let path = self.root.join(rel);
            if let Some(parent) = path.parent() {
                let _ = std::fs::create_dir_all(parent);
            }
            std::fs::write(&path, content).expect("write source");
        }
    }

    pub fn path(&self, rel: &str) -> PathBuf {
        self.root.join(rel)
    }
}

impl Drop for RunDisk {
    fn drop(&mut self) {
        let _ = std::fs::remove_dir_all(&self.root);
    }
}

/// Remove run disks left behind by workers that were killed.
pub fn sweep_stale_disks() {
    for base in ["/dev/shm", "/tmp"] {
        let Ok(rd) = std::fs::read_dir(base) else {
            continue;
        };
        for e in rd.filter_map(|e| e.ok()) {
            let name = e.file_name().to_string_lossy().to_string();
            if let Some(rest) = name.strip_prefix("aiken-dst-") {
                let pid = rest.split('-').next().and_then(|p| p.parse::<i32>().ok());
                if let Some(pid) = pid {
                    // SAFETY: signal 0 only probes for existence.
                    let alive = unsafe { libc::kill(pid, 0) } == 0;
                    if !alive {
                        let _ = std::fs::remove_dir_all(e.path());
                    }
                }
            }
        }
    }
}

// ------------------------------------------------------------------------------------------
// Observables

#[derive(Clone, Debug, Serialize, Deserialize, PartialEq)]
pub struct TestObs {
    pub module: String,
    pub name: String,
    pub kind: String,
    pub success: bool,
    /// hex of the flat encoding of the de Bruijn form of the test program
    pub program: String,
    pub fuzzer: Option<String>,
    pub cpu: i64,
    pub mem: i64,
    pub logs: Vec<String>,
    pub iterations: usize,
    pub labels: Vec<(String, usize)>,
    pub counterexample: Option<String>,
    pub assertion: Option<String>,
    pub error: Option<String>,
}

impl TestObs {
    pub fn key(&self) -> String {
        format!("{}::{}", self.module, self.name)
    }
    pub fn digest(&self) -> u64 {
        hash_str(&serde_json::to_string(self).unwrap())
    }
    pub fn diff(&self, other: &TestObs) -> Vec<String> {
        let mut d = vec![];
        macro_rules! cmp {
            ($f:ident) => {
                if self.$f != other.$f {
                    d.push(format!(
                        "{}: {} vs {}",
                        stringify!($f),
                        short(&format!("{:?}", self.$f), 160),
                        short(&format!("{:?}", other.$f), 160)
                    ));
                }
            };
        }
        cmp!(kind);
        cmp!(success);
        cmp!(program);
        cmp!(fuzzer);
        cmp!(cpu);
        cmp!(mem);
        cmp!(logs);
        cmp!(iterations);
        cmp!(labels);
        cmp!(counterexample);
        cmp!(assertion);
        cmp!(error);
        d
    }
}

pub fn flat_hex(program: &Program<Name>) -> String {
    let p: Result<Program<DeBruijn>, _> = program.clone().to_debruijn();
    match p {
        Ok(p) => match p.to_flat() {
            Ok(bytes) => hex::encode(bytes),
            Err(e) => format!("<flat error {e:?}>"),
        },
        Err(e) => format!("<debruijn error {e:?}>"),
    }
}

fn expr_string(e: &aiken_lang::expr::UntypedExpr) -> String {
    aiken_lang::format::Formatter::new()
        .expr(e, false)
        .to_pretty_string(80)
}

pub fn observe_result(
    r: &TestResult<aiken_lang::expr::UntypedExpr, aiken_lang::expr::UntypedExpr>,
) -> TestObs {
    match r {
        TestResult::UnitTestResult(UnitTestResult {
            success,
            spent_budget,
            logs,
            test,
            assertion,
        }) => TestObs {
            module: test.module.clone(),
            name: test.name.clone(),
            kind: "unit".into(),
            success: *success,
            program: flat_hex(&test.program),
            fuzzer: None,
            cpu: spent_budget.cpu,
            mem: spent_budget.mem,
            logs: logs.clone(),
            iterations: 1,
            labels: vec![],
            counterexample: None,
            assertion: assertion.as_ref().map(|a| {
                format!(
                    "{:?} head={:?} tail={:?}",
                    a.bin_op,
                    a.head.as_ref().map(expr_string),
                    a.tail
                        .as_ref()
                        .map(|t| t.iter().map(expr_string).collect::<Vec<_>>())
                )
            }),
            error: None,
        },
        TestResult::PropertyTestResult(PropertyTestResult {
            test,
            counterexample,
            iterations,
            labels,
            logs,
        }) => TestObs {
            module: test.module.clone(),
            name: test.name.clone(),
            kind: "prop".into(),
            success: r.is_success(),
            program: flat_hex(&test.program),
            fuzzer: Some(flat_hex(&test.fuzzer.program)),
            cpu: 0,
            mem: 0,
            logs: logs.clone(),
            iterations: *iterations,
            labels: labels.iter().map(|(k, v)| (k.clone(), *v)).collect(),
            counterexample: match counterexample {
                Ok(Some(e)) => Some(expr_string(e)),
                _ => None,
            },
            assertion: None,
            error: match counterexample {
                Err(e) => Some(short(&format!("{e}"), 300)),
                _ => None,
            },
        },
        TestResult::BenchmarkResult(b) => TestObs {
            module: b.bench.module.clone(),
            name: b.bench.name.clone(),
            kind: "bench".into(),
            success: b.error.is_none(),
            program: flat_hex(&b.bench.program),
            fuzzer: Some(flat_hex(&b.bench.sampler.program)),
            cpu: b.measures.iter().map(|(_, c)| c.cpu).sum(),
            mem: b.measures.iter().map(|(_, c)| c.mem).sum(),
            logs: vec![],
            iterations: b.measures.len(),
            labels: vec![],
            counterexample: None,
            assertion: None,
            error: b.error.as_ref().map(|e| short(&format!("{e}"), 300)),
        },
    }
}

/// Event listener that keeps what a user would see of a test run.
#[derive(Clone, Default)]
pub struct Capture {
    pub tests: Rc<RefCell<Vec<TestObs>>>,
    pub events: Rc<RefCell<Vec<String>>>,
}

impl EventListener for Capture {
    fn handle_event(&self, event: Event) {
        match event {
            Event::FinishedTests { tests, .. } => {
                let mut slot = self.tests.borrow_mut();
                slot.clear();
                for t in &tests {
                    slot.push(observe_result(t));
                }
                self.events.borrow_mut().push("FinishedTests".into());
            }
            Event::FinishedBenchmarks { benchmarks, .. } => {
                let mut slot = self.tests.borrow_mut();
                slot.clear();
                for t in &benchmarks {
                    slot.push(observe_result(t));
                }
            }
            _ => {}
        }
    }
}

#[derive(Clone, Debug, Serialize, Deserialize, PartialEq)]
pub struct Opts {
    pub trace_level: u8, // 0 silent 1 compact 2 verbose
    pub trace_scope: u8, // 0 user 1 compiler 2 all
    pub all_types: bool,
    pub uplc_dump: bool,
    pub env: Option<String>,
    pub seed: u32,
    pub max_success: usize,
}

impl Opts {
    pub fn default_check() -> Opts {
        Opts {
            trace_level: 2,
            trace_scope: 2,
            all_types: false,
            uplc_dump: false,
            env: None,
            seed: 42,
            max_success: 30,
        }
    }
    pub fn tracing(&self) -> Tracing {
        let lvl = match self.trace_level {
            0 => TraceLevel::Silent,
            1 => TraceLevel::Compact,
            _ => TraceLevel::Verbose,
        };
        match self.trace_scope {
            0 => Tracing::UserDefined(lvl),
            1 => Tracing::CompilerGenerated(lvl),
            _ => Tracing::All(lvl),
        }
    }
    pub fn tag(&self) -> String {
        format!(
            "t{}{}-a{}-u{}-s{}-n{}",
            self.trace_level,
            self.trace_scope,
            self.all_types as u8,
            self.uplc_dump as u8,
            self.seed,
            self.max_success
        )
    }
}

#[derive(Clone, Debug, Serialize, Deserialize, PartialEq, Default)]
pub struct BuildObs {
    pub ok: bool,
    pub errors: Vec<String>,
    pub blueprint: String,
    pub artifacts: BTreeMap<String, String>,
}

impl BuildObs {
    pub fn digest(&self) -> u64 {
        hash_str(&serde_json::to_string(self).unwrap())
    }
}

#[derive(Clone, Debug, Serialize, Deserialize, PartialEq, Default)]
pub struct CheckObs {
    pub ok: bool,
    pub errors: Vec<String>,
    /// Tests in the order they were reported.
    pub tests: Vec<TestObs>,
}

impl CheckObs {
    pub fn digest_unordered(&self) -> u64 {
        let mut ds: Vec<(String, u64)> = self.tests.iter().map(|t| (t.key(), t.digest())).collect();
        ds.sort();
        hash_str(&format!("{:?}{:?}{}", ds, self.errors, self.ok))
    }
    pub fn by_key(&self) -> BTreeMap<String, &TestObs> {
        self.tests.iter().map(|t| (t.key(), t)).collect()
    }
}

fn error_names(root: &Path, errs: &[aiken_project::error::Error]) -> Vec<String> {
    let root_s = root.to_string_lossy().to_string();
    let mut v: Vec<String> = errs
        .iter()
        .map(|e| {
            if std::env::var_os("VERIF_DEBUG").is_some() {
                eprintln!("[error] {}", short(&format!("{e:?}"), 3000));
            }
            let msg = format!("{e}").replace(&root_s, "<root>");
            short(&msg, 300)
        })
        .collect();
    v.sort();
    v
}

pub fn new_project(root: &Path) -> Result<(Project<Capture>, Capture), String> {
    let capture = Capture::default();
    match Project::new(root.to_path_buf(), capture.clone()) {
        Ok(p) => Ok((p, capture)),
        Err(e) => Err(format!("{e}")),
    }
}

pub fn do_build(project: &mut Project<Capture>, root: &Path, opts: &Opts) -> BuildObs {
    let blueprint_path = root.join("plutus.json");
    let _ = std::fs::remove_file(&blueprint_path);
    let _ = std::fs::remove_dir_all(root.join("artifacts"));
    let res = project.build(
        opts.uplc_dump,
        opts.tracing(),
        blueprint_path.clone(),
        BlueprintExport::from(opts.all_types),
        opts.env.clone(),
    );
    let _ = project.warnings();
    let mut obs = BuildObs::default();
    match res {
        Ok(()) => obs.ok = true,
        Err(errs) => obs.errors = error_names(root, &errs),
    }
    obs.blueprint = std::fs::read_to_string(&blueprint_path).unwrap_or_default();
    if let Ok(rd) = std::fs::read_dir(root.join("artifacts")) {
        for e in rd.filter_map(|e| e.ok()) {
            if let Ok(c) = std::fs::read_to_string(e.path()) {
                obs.artifacts
                    .insert(e.file_name().to_string_lossy().to_string(), c);
            }
        }
    }
    obs
}

pub fn do_check(
    project: &mut Project<Capture>,
    capture: &Capture,
    root: &Path,
    opts: &Opts,
    skip_tests: bool,
) -> CheckObs {
    do_check_matching(project, capture, root, opts, skip_tests, None)
}

/// `aiken check -m "<module>.{<name>}" --exact-match` when `only` is given.
pub fn do_check_matching(
    project: &mut Project<Capture>,
    capture: &Capture,
    root: &Path,
    opts: &Opts,
    skip_tests: bool,
    only: Option<(String, String)>,
) -> CheckObs {
    capture.tests.borrow_mut().clear();
    let exact = only.is_some();
    let res = project.check(
        skip_tests,
        only.map(|(m, n)| vec![format!("{m}.{{{n}}}")]),
        false,
        exact,
        opts.seed,
        opts.max_success,
        CoverageMode::default(),
        opts.tracing(),
        false,
        opts.env.clone(),
    );
    let _ = project.warnings();
    let mut obs = CheckObs::default();
    match res {
        Ok(()) => obs.ok = true,
        Err(errs) => {
            // Test failures are errors too; keep their kinds only (their text repeats the
            // per-test observables).
            let mut names = error_names(root, &errs);
            for n in names.iter_mut() {
                if n.contains("failed") && n.len() > 40 {
                    *n = short(n, 40);
                }
            }
            obs.errors = names;
        }
    }
    obs.tests = capture.tests.borrow().clone();
    obs
}

pub fn do_bench(
    project: &mut Project<Capture>,
    capture: &Capture,
    root: &Path,
    opts: &Opts,
    max_size: usize,
) -> CheckObs {
    capture.tests.borrow_mut().clear();
    let res = project.benchmark(None, false, opts.seed, max_size, opts.tracing(), false, opts.env.clone());
    let _ = project.warnings();
    let mut obs = CheckObs::default();
    match res {
        Ok(()) => obs.ok = true,
        Err(errs) => obs.errors = error_names(root, &errs),
    }
    obs.tests = capture.tests.borrow().clone();
    obs
}

/// Run `f` inside a dedicated rayon pool of `width` threads named sim-rayon-<i> (fresh threads ⇒
/// fresh hash keys under the current epoch). `f` runs on a pool thread, so anything it builds may
/// hold `Rc`s as long as what it returns is `Send`.
pub fn with_pool<T: Send>(width: usize, f: impl FnOnce() -> T + Send) -> T {
    let pool = rayon::ThreadPoolBuilder::new()
        .num_threads(width.max(1))
        .thread_name(|i| format!("sim-rayon-{i}"))
        .stack_size(RUN_STACK)
        .build()
        .expect("rayon pool");
    pool.install(f)
}

pub fn identity_order(spec: &ProjSpec) -> Vec<usize> {
    (0..spec.files.len()).collect()
}
