//! Developer commands (not used by checks).
use crate::common::*;
use crate::genproj;
use crate::hashseed;
use crate::project::*;
use crate::rng::Rng;

pub fn tryproj(seed: u64, verbose: bool) -> i32 {
    let mut rng = Rng::new(seed);
    let g = genproj::generate(&mut rng);
    let spec = g.spec.clone();
    hashseed::set_epoch(seed | 1);
    let r = on_fresh_thread("run", move || {
        let disk = RunDisk::new();
        disk.materialize(&spec, &identity_order(&spec));
        if verbose {
            for (p, c) in &spec.files {
                if p != "lib/fuzz.ak" {
                    println!("=== {p}\n{c}");
                }
            }
        }
        for (p, c) in &spec.files {
            let kind = if p.starts_with("validators") { aiken_lang::ast::ModuleKind::Validator } else { aiken_lang::ast::ModuleKind::Lib };
            if let Err(errs) = aiken_lang::parser::module(c, kind) {
                for e in errs {
                    let d = format!("{e:?}");
                    println!("PARSE ERROR in {p}: {}", crate::common::short(&d, 600));
                    if let Some(i) = d.find("span: Span { start: ") {
                        let n: usize = d[i + 20..].split(',').next().unwrap().trim().parse().unwrap_or(0);
                        let lo = n.saturating_sub(80);
                        let hi = (n + 80).min(c.len());
                        println!("---\n{}\n---", &c[lo..hi]);
                    }
                }
            }
        }
        let opts = Opts::default_check();
        let (mut project, capture) = new_project(&disk.root).expect("project");
        let b = do_build(&mut project, &disk.root, &opts);
        println!("build ok={} errors={:?} blueprint={} bytes", b.ok, b.errors, b.blueprint.len());
        if std::env::var_os("SHOW_BLUEPRINT").is_some() {
            println!("{}", b.blueprint);
        }
        let (mut project, capture2) = new_project(&disk.root).expect("project");
        let _ = capture;
        let c = do_check(&mut project, &capture2, &disk.root, &opts, false);
        println!("check ok={} errors={:?}", c.ok, c.errors);
        for t in &c.tests {
            println!(
                "  {} {} success={} cpu={} iter={} cex={:?} labels={:?} err={:?} assertion={:?}",
                t.kind, t.key(), t.success, t.cpu, t.iterations, t.counterexample, t.labels, t.error, t.assertion
            );
        }
        b.ok
    });
    hashseed::clear_epoch();
    match r {
        Ok(true) => 0,
        Ok(false) => 1,
        Err(p) => {
            println!("panic: {} @ {}", p.message, p.location);
            2
        }
    }
}

/// `dst inst <acceptance id> <ops>`: ops = comma list of B(uild) K(check) C(ompile only) FB FK
pub fn inst(proj: &str, ops: &str, o: &str) -> i32 {
    use crate::build::*;
    let spec = acceptance_projects()
        .iter()
        .find(|p| p.id.ends_with(proj))
        .expect("project")
        .clone();
    let steps = ops
        .split(',')
        .enumerate()
        .map(|(i, o)| Step {
            op: match o {
                "B" => Op::Build,
                "K" => Op::Check,
                "C" => Op::CheckpointCompileRestore,
                "FB" => Op::FreshBuild,
                "FK" => Op::FreshCheck,
                _ => panic!("op"),
            },
            epoch: 1000 + i as u64 * 2 + 1,
            width: 1,
        })
        .collect();
    let sc = Scenario {
        order: identity_order(&spec),
        spec,
        opts: {
            let mut op = Opts::default_check();
            let b = o.as_bytes();
            if b.len() >= 4 {
                op.trace_level = b[0] - b'0';
                op.trace_scope = b[1] - b'0';
                op.all_types = b[2] == b'1';
                op.uplc_dump = b[3] == b'1';
            }
            op.max_success = 12;
            op
        },
        steps,
    };
    let r = on_fresh_thread("run", move || execute_scenario(&sc).map(|o| (o.divergences, o.registration_orders)));
    println!("{r:?}");
    0
}

pub fn costprobe() -> i32 {
    use pallas_primitives::conway::Language;
    use uplc::machine::cost_model::*;
    for (name, lang, hard) in [
        ("v1", Language::PlutusV1, CostModel::v1()),
        ("v2", Language::PlutusV2, CostModel::v2()),
        ("v3", Language::PlutusV3, CostModel::v3()),
    ] {
        for pv in [7u16, 8, 9, 10, 11] {
            let derived = CostModel::default_for_language_and_protocol(&lang, pv);
            println!("{name} pv{pv}: hard-coded == from default vector: {}  (machine costs equal: {})", hard == derived, hard.machine_costs == derived.machine_costs);
        }
    }
    println!("default() == v3(): {}", CostModel::default() == CostModel::v3());
    0
}
