//! C17 `sim-sched`: parallel test runs are isolated and schedule-independent.
//!
//! (i) Controlled leg: the H2 executor seam hands the project's tests to W simulator-owned OS
//!     threads, released ONE AT A TIME according to a seeded schedule (sequence of (worker, test)
//!     pairs): real threads, real moves across threads, real drops on foreign threads — but who
//!     runs next is the simulator's decision, so a run replays exactly.
//!     Uncontrolled leg: rayon's real scheduler at widths 2/3/8/16 must give the same results in
//!     the same order as width 1 (oracle: equality with the sequential reference).
//! (ii) Ownership invariant at the hand-off seam (H1): for the exact `&[Test]` about to cross into
//!     the workers, every `Rc` allocation reachable from what a worker reads, clones or drops is
//!     (V1) reachable from one test only and (V2) held only from inside that test's own graph
//!     (`strong_count == in-graph references`); (V3) no typed-expression assertion whose types
//!     are shared with the module ASTs is still attached.

use crate::common::*;
use crate::driver::{Engine, EvidenceParts};
use crate::genproj;
use crate::hashseed;
use crate::project::*;
use crate::rng::Rng;
use aiken_lang::test_framework::Test;
use aiken_project::verif::{RawResult, RunFn};
use serde::{Deserialize, Serialize};
use serde_json::{Value, json};
use std::cell::RefCell;
use std::collections::HashMap;
use std::rc::Rc;
use std::sync::mpsc;
use uplc::ast::{Constant, Name, Program, Term, Type};

pub struct SchedEngine;

const PROP: &str = "C17";

// ------------------------------------------------------------------------------------------
// Ownership audit

#[derive(Default, Clone, Debug, Serialize, Deserialize)]
pub struct AuditReport {
    /// keys of the tests in hand-off order
    pub handoff_order: Vec<String>,
    pub tests: usize,
    pub allocations: usize,
    /// allocations reachable from two different tests
    pub shared_between_tests: Vec<String>,
    /// allocations with holders outside the test's own graph
    pub external_holders: Vec<String>,
    /// unit tests whose typed assertion is still attached and shares types with the modules
    pub attached_assertions: Vec<String>,
}

impl AuditReport {
    pub fn clean(&self) -> bool {
        self.shared_between_tests.is_empty()
            && self.external_holders.is_empty()
            && self.attached_assertions.is_empty()
    }
}

struct Alloc {
    strong: usize,
    edges: usize,
    owner: usize,
    kind: &'static str,
}

struct Auditor {
    allocs: HashMap<usize, Alloc>,
    shared: Vec<String>,
    current: usize,
    current_name: String,
}

impl Auditor {
    /// Record an edge to the allocation behind `rc`; true when it is visited for the first time.
    fn edge<T>(&mut self, rc: &Rc<T>, kind: &'static str) -> bool {
        let addr = Rc::as_ptr(rc) as *const () as usize;
        match self.allocs.get_mut(&addr) {
            Some(a) => {
                a.edges += 1;
                if a.owner != self.current && self.shared.len() < 8 {
                    self.shared.push(format!(
                        "{kind} allocation reachable from test #{} and from {}",
                        a.owner, self.current_name
                    ));
                }
                if a.owner != self.current {
                    // count it even when the description list is full
                    a.owner = usize::MAX;
                }
                false
            }
            None => {
                self.allocs.insert(
                    addr,
                    Alloc {
                        strong: Rc::strong_count(rc),
                        edges: 1,
                        owner: self.current,
                        kind,
                    },
                );
                true
            }
        }
    }

    fn ty(&mut self, t: &Type) {
        match t {
            Type::List(inner) => {
                if self.edge(inner, "Rc<Type>") {
                    self.ty(inner)
                }
            }
            Type::Pair(a, b) => {
                if self.edge(a, "Rc<Type>") {
                    self.ty(a)
                }
                if self.edge(b, "Rc<Type>") {
                    self.ty(b)
                }
            }
            _ => {}
        }
    }

    fn constant(&mut self, c: &Constant) {
        match c {
            Constant::ProtoList(t, items) => {
                self.ty(t);
                for i in items {
                    self.constant(i)
                }
            }
            Constant::ProtoPair(t1, t2, a, b) => {
                self.ty(t1);
                self.ty(t2);
                if self.edge(a, "Rc<Constant>") {
                    self.constant(a)
                }
                if self.edge(b, "Rc<Constant>") {
                    self.constant(b)
                }
            }
            _ => {}
        }
    }

    fn term(&mut self, t: &Term<Name>) {
        // Explicit stack: compiled programs nest deeply.
        let mut stack: Vec<&Term<Name>> = vec![t];
        while let Some(t) = stack.pop() {
            match t {
                Term::Var(n) => {
                    self.edge(n, "Rc<Name>");
                }
                Term::Delay(b) | Term::Force(b) => {
                    if self.edge(b, "Rc<Term>") {
                        stack.push(b)
                    }
                }
                Term::Lambda {
                    parameter_name,
                    body,
                } => {
                    self.edge(parameter_name, "Rc<Name>");
                    if self.edge(body, "Rc<Term>") {
                        stack.push(body)
                    }
                }
                Term::Apply { function, argument } => {
                    if self.edge(function, "Rc<Term>") {
                        stack.push(function)
                    }
                    if self.edge(argument, "Rc<Term>") {
                        stack.push(argument)
                    }
                }
                Term::Constant(c) => {
                    if self.edge(c, "Rc<Constant>") {
                        self.constant(c)
                    }
                }
                Term::Error | Term::Builtin(_) => {}
                Term::Constr { fields, .. } => {
                    for f in fields {
                        stack.push(f)
                    }
                }
                Term::Case { constr, branches } => {
                    if self.edge(constr, "Rc<Term>") {
                        stack.push(constr)
                    }
                    for b in branches {
                        stack.push(b)
                    }
                }
            }
        }
    }

    fn program(&mut self, p: &Program<Name>) {
        self.term(&p.term)
    }
}

pub fn audit(tests: &[Test]) -> AuditReport {
    let mut a = Auditor {
        allocs: HashMap::new(),
        shared: vec![],
        current: 0,
        current_name: String::new(),
    };
    let mut report = AuditReport {
        tests: tests.len(),
        ..Default::default()
    };
    let mut names = vec![];
    for (i, t) in tests.iter().enumerate() {
        a.current = i;
        match t {
            Test::UnitTest(u) => {
                a.current_name = format!("test #{i} {}::{}", u.module, u.name);
                a.program(&u.program);
                if let Some(assertion) = &u.assertion {
                    // A typed assertion cloned out of a module shares every `Rc<Type>` with the
                    // module's AST; `UnitTest::run` clones and drops it on the worker.
                    let mut shared_types = 0;
                    let mut probe = |e: &aiken_lang::expr::TypedExpr| {
                        let t = e.tipo();
                        // our clone + the expression's own reference = 2
                        if Rc::strong_count(&t) > 2 {
                            shared_types += 1;
                        }
                    };
                    if let Ok(h) = &assertion.head {
                        probe(h)
                    }
                    if let Ok(tail) = &assertion.tail {
                        for e in tail.iter() {
                            probe(e)
                        }
                    }
                    if shared_types > 0 {
                        report.attached_assertions.push(format!(
                            "{}::{} crosses into the workers with its typed assertion attached ({} operand type(s) also held elsewhere)",
                            u.module, u.name, shared_types
                        ));
                    }
                }
            }
            Test::PropertyTest(p) => {
                a.current_name = format!("test #{i} {}::{}", p.module, p.name);
                a.program(&p.program);
                a.program(&p.fuzzer.program);
            }
            Test::Benchmark(b) => {
                a.current_name = format!("test #{i} {}::{}", b.module, b.name);
                a.program(&b.program);
                a.program(&b.sampler.program);
            }
        }
        names.push(a.current_name.clone());
        report.handoff_order.push(match t {
            Test::UnitTest(u) => format!("{}::{}", u.module, u.name),
            Test::PropertyTest(p) => format!("{}::{}", p.module, p.name),
            Test::Benchmark(b) => format!("{}::{}", b.module, b.name),
        });
    }
    report.allocations = a.allocs.len();
    let mut shared_count = 0;
    for alloc in a.allocs.values() {
        if alloc.owner == usize::MAX {
            shared_count += 1;
        } else if alloc.strong != alloc.edges && report.external_holders.len() < 8 {
            report.external_holders.push(format!(
                "{} allocation in {} has strong_count {} but only {} reference(s) from inside the test",
                alloc.kind,
                names.get(alloc.owner).cloned().unwrap_or_default(),
                alloc.strong,
                alloc.edges
            ));
        }
    }
    report.shared_between_tests = a.shared;
    if shared_count > 0 && report.shared_between_tests.is_empty() {
        report
            .shared_between_tests
            .push(format!("{shared_count} allocations shared between tests"));
    }
    report.shared_between_tests.sort();
    report.external_holders.sort();
    report
}

// ------------------------------------------------------------------------------------------
// Executor

#[derive(Clone, Debug, Serialize, Deserialize, PartialEq)]
pub struct Schedule {
    pub workers: usize,
    /// Execution order: test indices (a permutation of 0..n, truncated/extended modulo n at run
    /// time when the number of tests differs).
    pub order: Vec<usize>,
    /// Worker of each test (by test index).
    pub assign: Vec<usize>,
    pub shape: String,
}

fn run_schedule(schedule: &Schedule, tests: Vec<Test>, run: &RunFn<'_>) -> Vec<RawResult> {
    let n = tests.len();
    if n == 0 {
        return vec![];
    }
    let workers = schedule.workers.max(1);
    // Normalise the schedule to this n.
    let mut order: Vec<usize> = schedule.order.iter().map(|i| i % n).collect();
    let mut seen = vec![false; n];
    order.retain(|i| {
        let first = !seen[*i];
        seen[*i] = true;
        first
    });
    for (i, s) in seen.iter().enumerate() {
        if !s {
            order.push(i)
        }
    }
    let assign: Vec<usize> = (0..n)
        .map(|i| schedule.assign.get(i).copied().unwrap_or(i) % workers)
        .collect();
    let mut slots: Vec<Option<Test>> = tests.into_iter().map(Some).collect();
    let mut results: Vec<Option<RawResult>> = (0..n).map(|_| None).collect();
    let mut failure: Option<String> = None;
    std::thread::scope(|s| {
        let (res_tx, res_rx) = mpsc::channel::<(usize, Result<RawResult, String>)>();
        let mut txs = vec![];
        for w in 0..workers {
            let (tx, rx) = mpsc::channel::<(usize, Test)>();
            txs.push(tx);
            let res_tx = res_tx.clone();
            std::thread::Builder::new()
                .name(format!("sim-worker-{w}"))
                .stack_size(RUN_STACK)
                .spawn_scoped(s, move || {
                    for (i, t) in rx {
                        let r = guard(|| run(t)).map_err(|p| format!("{} @ {}", p.message, p.site()));
                        if res_tx.send((i, r)).is_err() {
                            break;
                        }
                    }
                })
                .expect("spawn sim worker");
        }
        for i in order {
            let w = assign[i];
            let t = slots[i].take().expect("test scheduled once");
            if txs[w].send((i, t)).is_err() {
                failure = Some("worker gone".into());
                break;
            }
            match res_rx.recv() {
                Ok((j, Ok(r))) => results[j] = Some(r),
                Ok((j, Err(p))) => {
                    failure = Some(format!("test #{j} panicked on its worker: {p}"));
                    break;
                }
                Err(_) => {
                    failure = Some("result channel closed".into());
                    break;
                }
            }
        }
        drop(txs);
    });
    if let Some(f) = failure {
        panic!("{f}");
    }
    results.into_iter().map(|r| r.expect("result")).collect()
}

fn gen_schedule(rng: &mut Rng, n: usize) -> Schedule {
    let n = n.max(1);
    let workers = match rng.below(5) {
        0 => 1,
        1 => 2,
        2 => n.min(16),
        _ => 1 + rng.usize_below(16),
    };
    let mut order: Vec<usize> = (0..n).collect();
    let shape = match rng.below(6) {
        0 => {
            order.reverse();
            "reverse"
        }
        1 => "identity",
        2 => {
            // evens then odds
            let mut o: Vec<usize> = (0..n).filter(|i| i % 2 == 0).collect();
            o.extend((0..n).filter(|i| i % 2 == 1));
            order = o;
            "interleaved"
        }
        _ => {
            rng.shuffle(&mut order);
            "shuffled"
        }
    };
    let assign: Vec<usize> = match rng.below(4) {
        0 => vec![0; n],
        1 => (0..n).collect(),
        _ => (0..n).map(|_| rng.usize_below(workers)).collect(),
    };
    Schedule {
        workers,
        order,
        assign,
        shape: shape.to_string(),
    }
}

// ------------------------------------------------------------------------------------------

#[derive(Clone, Debug, Serialize, Deserialize, PartialEq)]
pub enum Leg {
    /// One pool thread, no executor: the one-at-a-time baseline.
    Sequential,
    /// Executor seam with an explicit schedule (deterministic).
    Controlled(Schedule),
    /// Real rayon scheduler at this width.
    Rayon(usize),
}

#[derive(Clone, Debug, Serialize, Deserialize, PartialEq)]
pub struct SchedScenario {
    pub spec: ProjSpec,
    pub opts: Opts,
    pub epoch: u64,
    pub leg: Leg,
    /// Run the project's benchmarks (`aiken bench`, same parallel runner) instead of its tests.
    #[serde(default)]
    pub bench: bool,
    /// Run only this (module, test) — literally "one at a time".
    #[serde(default)]
    pub only: Option<(String, String)>,
}

pub struct SchedOutcome {
    pub check: CheckObs,
    pub audit: AuditReport,
    pub audits: usize,
}

/// Run `check` once under the scenario's leg, with the audit hook installed.
pub fn execute(sc: &SchedScenario) -> SchedOutcome {
    let disk = RunDisk::new();
    disk.materialize(&sc.spec, &identity_order(&sc.spec));
    let root = disk.root.clone();
    let opts = sc.opts.clone();
    let leg = sc.leg.clone();
    let bench = sc.bench;
    let only = sc.only.clone();
    let width = match &leg {
        Leg::Sequential => 1,
        Leg::Controlled(_) => 1,
        Leg::Rayon(w) => *w,
    };
    hashseed::set_epoch(sc.epoch | 1);
    let (check, audit_report, audits) = with_pool(width, move || {
        let reports: Rc<RefCell<Vec<AuditReport>>> = Rc::new(RefCell::new(vec![]));
        let r2 = reports.clone();
        aiken_project::verif::set_audit(Some(Box::new(move |tests: &[Test]| {
            r2.borrow_mut().push(audit(tests));
        })));
        if let Leg::Controlled(schedule) = &leg {
            let schedule = schedule.clone();
            aiken_project::verif::set_executor(Some(Box::new(
                move |tests: Vec<Test>, run: &RunFn<'_>| run_schedule(&schedule, tests, run),
            )));
        }
        let check = match new_project(&root) {
            Ok((mut p, cap)) => {
                if bench {
                    do_bench(&mut p, &cap, &root, &opts, 6)
                } else {
                    do_check_matching(&mut p, &cap, &root, &opts, false, only)
                }
            }
            Err(e) => CheckObs {
                ok: false,
                errors: vec![e],
                tests: vec![],
            },
        };
        aiken_project::verif::set_audit(None);
        aiken_project::verif::set_executor(None);
        let reps = reports.borrow().clone();
        let n = reps.len();
        let mut merged = AuditReport::default();
        for r in reps {
            merged.tests += r.tests;
            merged.handoff_order.extend(r.handoff_order);
            merged.allocations += r.allocations;
            merged.shared_between_tests.extend(r.shared_between_tests);
            merged.external_holders.extend(r.external_holders);
            merged.attached_assertions.extend(r.attached_assertions);
        }
        (check, merged, n)
    });
    hashseed::clear_epoch();
    SchedOutcome {
        check,
        audit: audit_report,
        audits,
    }
}

fn compare(got: &CheckObs, want: &CheckObs, handoff: &[String]) -> Vec<(String, String)> {
    let mut d = vec![];
    // Results must come back in the order the tests were handed to the workers (that is the
    // order a one-at-a-time run reports them in).
    let reported: Vec<String> = got.tests.iter().map(|t| t.key()).collect();
    if !handoff.is_empty() && reported != handoff {
        d.push((
            "order".to_string(),
            format!("results reported as {reported:?} but the tests were handed off as {handoff:?}"),
        ));
    }
    if got.ok != want.ok || got.errors != want.errors {
        d.push((
            "status".to_string(),
            format!(
                "ok={} errors={:?} vs sequential ok={} errors={:?}",
                got.ok, got.errors, want.ok, want.errors
            ),
        ));
    }
    let mut go: Vec<String> = got.tests.iter().map(|t| t.key()).collect();
    let mut wo: Vec<String> = want.tests.iter().map(|t| t.key()).collect();
    go.sort();
    wo.sort();
    if go != wo {
        d.push((
            "test-set".to_string(),
            format!("tests reported {go:?}, one-at-a-time run reports {wo:?}"),
        ));
    }
    let g = got.by_key();
    for t in &want.tests {
        if let Some(o) = g.get(&t.key()) {
            let diff = o.diff(t);
            if !diff.is_empty() {
                d.push((
                    format!("result:{}", diff[0].split(':').next().unwrap_or("")),
                    format!("{}: {}", t.key(), diff.join("; ")),
                ));
            }
        }
    }
    d
}

fn report(ctx: &mut RunCtx, sc: &SchedScenario, divs: &[(String, String)], audit: &AuditReport) {
    let proj = if sc.spec.id.starts_with("acceptance/") {
        sc.spec.id.clone()
    } else {
        "generated".to_string()
    };
    let (leg, controlled) = match &sc.leg {
        Leg::Controlled(s) => (
            format!(
                "controlled schedule: {} workers, {} order {:?}, assignment {:?}",
                s.workers, s.shape, s.order, s.assign
            ),
            true,
        ),
        Leg::Rayon(w) => (format!("rayon at width {w} (uncontrolled; deterministic_replay=false)"), false),
        Leg::Sequential => ("one thread".to_string(), true),
    };
    let mut seen = std::collections::BTreeSet::new();
    for (class, desc) in divs {
        if !seen.insert(class.clone()) {
            continue;
        }
        ctx.violation(
            PROP,
            &format!("schedule-dependence:{class}"),
            format!("schedule-dependence|{class}|{}|{proj}", if controlled { "controlled" } else { "rayon" }),
            format!(
                "project {} options {}: under {leg} the test run differs from the one-at-a-time run: {desc}",
                sc.spec.id,
                sc.opts.tag()
            ),
            json!({ "scenario": sc, "deterministic_replay": controlled }),
        );
    }
    let mut audit_v = |class: &str, items: &[String]| {
        if let Some(first) = items.first() {
            ctx.violation(
                PROP,
                &format!("ownership:{class}"),
                format!("ownership|{class}|{proj}"),
                format!(
                    "project {} options {}: at the hand-off to the worker threads ({} tests, {} Rc allocations audited): {} — {}",
                    sc.spec.id,
                    sc.opts.tag(),
                    audit.tests,
                    audit.allocations,
                    first,
                    if items.len() > 1 { format!("and {} more", items.len() - 1) } else { String::new() }
                ),
                json!({ "scenario": sc, "deterministic_replay": true }),
            );
        }
    };
    audit_v("shared-between-tests", &audit.shared_between_tests);
    audit_v("external-holder", &audit.external_holders);
    audit_v("assertion-attached", &audit.attached_assertions);
}

impl Engine for SchedEngine {
    fn property(&self) -> &'static str {
        PROP
    }
    fn name(&self) -> &'static str {
        "sim-sched"
    }
    fn engine_id(&self) -> u64 {
        17
    }
    fn runs(&self, tier: Tier) -> u64 {
        match tier {
            Tier::Quick => 360,
            Tier::Thorough => 8000,
        }
    }
    fn selfcheck_runs(&self, tier: Tier) -> u64 {
        match tier {
            Tier::Quick => 12,
            Tier::Thorough => 48,
        }
    }

    fn run(&self, ctx: &mut RunCtx) {
        let acc = acceptance_projects();
        // Two of three runs use generated projects (many tests over shared constants, helper
        // functions and types); the third walks the acceptance projects.
        let spec = if ctx.k % 3 != 2 {
            ctx.stats.inc("projects_generated", 1);
            genproj::generate(&mut ctx.rng).spec
        } else {
            ctx.stats.inc("projects_acceptance", 1);
            acc[((ctx.k / 3) as usize) % acc.len()].clone()
        };
        let mut opts = Opts::default_check();
        opts.trace_level = ctx.rng.below(3) as u8;
        opts.trace_scope = ctx.rng.below(3) as u8;
        opts.seed = ctx.rng.below(1000) as u32;
        opts.max_success = 10 + ctx.rng.usize_below(15);
        // One-at-a-time baseline: same hash epoch, one pool thread, no executor (also audited).
        let epoch = ctx.rng.next_u64() | 1;
        let bench = ctx.k % 3 != 2 && ctx.rng.chance(1, 5);
        let baseline_sc = SchedScenario {
            spec: spec.clone(),
            opts: opts.clone(),
            epoch,
            leg: Leg::Sequential,
            bench,
            only: None,
        };
        let baseline = match guard(|| execute(&baseline_sc)) {
            Ok(b) => b,
            Err(p) => {
                ctx.stats.inc("baseline_panics", 1);
                ctx.event(&format!("baseline panic {} @ {}", p.message, p.site()));
                return;
            }
        };
        let n = baseline.check.tests.len();
        {
            // The baseline itself is audited and must report in hand-off order.
            let divs = compare(&baseline.check, &baseline.check, &baseline.audit.handoff_order);
            if !divs.is_empty() || !baseline.audit.clean() {
                report(ctx, &baseline_sc, &divs, &baseline.audit);
            }
        }
        // "...the same results as running them one at a time": re-run up to three tests (failing
        // unit tests first — they carry an assertion) alone, each in its own run, and compare
        // everything a user sees of that test.
        if !bench && n >= 2 {
            let mut picks: Vec<&TestObs> = baseline.check.tests.iter().filter(|t| !t.success && t.kind == "unit").collect();
            let others: Vec<&TestObs> = baseline.check.tests.iter().filter(|t| t.success || t.kind != "unit").collect();
            if !others.is_empty() {
                picks.push(others[ctx.rng.usize_below(others.len())]);
            }
            ctx.rng.shuffle(&mut picks);
            picks.truncate(3);
            for t in picks {
                let alone_sc = SchedScenario {
                    only: Some((t.module.clone(), t.name.clone())),
                    ..baseline_sc.clone()
                };
                let Ok(alone) = guard(|| execute(&alone_sc)) else { continue };
                ctx.stats.inc("one_at_a_time_reruns", 1);
                ctx.stats.inc("evaluations", 1);
                match alone.check.tests.iter().find(|a| a.key() == t.key()) {
                    Some(a) => {
                        let diff = t.diff(a);
                        if !diff.is_empty() {
                            report(
                                ctx,
                                &alone_sc,
                                &[(
                                    format!("batch-vs-alone:{}", diff[0].split(':').next().unwrap_or("")),
                                    format!("{} in the whole run vs run alone: {}", t.key(), diff.join("; ")),
                                )],
                                &AuditReport::default(),
                            );
                        }
                    }
                    None => {
                        // a name that is a substring of nothing else is always found with an
                        // exact match; a missing result means the filter dropped it
                        if alone.check.tests.is_empty() && alone.check.errors.is_empty() {
                            ctx.stats.inc("one_at_a_time_not_selected", 1);
                        }
                    }
                }
            }
        }
        // benchmarks: mostly the real parallel iterator (only it can expose an ordering that the
        // iterator itself fails to keep; the controlled executor replaces it)
        let leg = if ctx.rng.chance(if bench { 1 } else { 2 }, 3) {
            Leg::Controlled(gen_schedule(&mut ctx.rng, n))
        } else {
            Leg::Rayon(*ctx.rng.pick(&[2usize, 3, 8, 16]))
        };
        let sc = SchedScenario {
            spec,
            opts,
            epoch,
            leg,
            bench,
            only: None,
        };
        if bench {
            ctx.stats.inc("benchmark_runs", 1);
        }
        let controlled = matches!(sc.leg, Leg::Controlled(_));
        ctx.event(&format!(
            "scenario {} {} tests={n} leg={:?}",
            sc.spec.id,
            sc.opts.tag(),
            sc.leg
        ));
        let outcome = match guard(|| execute(&sc)) {
            Ok(o) => o,
            Err(p) => {
                ctx.violation(
                    PROP,
                    "schedule-dependence:panic",
                    format!("schedule-dependence|panic@{}", p.site()),
                    format!(
                        "project {}: the scheduled test run panicked ({} @ {}) while the one-at-a-time run did not",
                        sc.spec.id, p.message, p.location
                    ),
                    json!({ "scenario": sc, "deterministic_replay": controlled }),
                );
                return;
            }
        };
        ctx.stats.inc("evaluations", 1 + n as u64);
        ctx.logical_steps += n as u64;
        ctx.stats.inc("tests_scheduled", n as u64);
        ctx.stats.inc("audits", outcome.audits as u64);
        ctx.stats.inc("rc_allocations_audited", outcome.audit.allocations as u64);
        match &sc.leg {
            Leg::Controlled(s) => {
                ctx.stats.inc("leg_controlled", 1);
                ctx.stats.add(
                    "schedules",
                    hash_str(&format!("{}{:?}{:?}{}", s.workers, s.order, s.assign, n)),
                );
                ctx.stats.inc(&format!("shape_{}", s.shape), 1);
                ctx.stats.max("max_workers", s.workers as u64);
                if n >= 2 {
                    ctx.stats.add(
                        "nontrivial",
                        hash_str(&format!("{}{:?}{}", sc.spec.id, s, sc.opts.tag())),
                    );
                }
            }
            Leg::Sequential => {}
            Leg::Rayon(w) => {
                ctx.stats.inc("leg_rayon", 1);
                ctx.stats.inc(&format!("rayon_width_{w}"), 1);
                if n >= 2 {
                    ctx.stats.add(
                        "nontrivial",
                        hash_str(&format!("{}rayon{w}{}{}", sc.spec.id, sc.opts.tag(), sc.epoch)),
                    );
                }
            }
        }
        let divs = compare(&outcome.check, &baseline.check, &outcome.audit.handoff_order);
        ctx.event(&format!(
            "outcome tests={} divergences={} audit_allocs={} clean={}",
            outcome.check.tests.len(),
            divs.len(),
            outcome.audit.allocations,
            outcome.audit.clean()
        ));
        if !divs.is_empty() || !outcome.audit.clean() {
            // Minimise a controlled schedule: fewer workers, identity order.
            let mut best = sc.clone();
            if let Leg::Controlled(s) = &sc.leg {
                let candidates = [
                    Schedule { workers: 1, order: (0..n).collect(), assign: vec![0; n], shape: "identity".into() },
                    Schedule { workers: 2, order: (0..n).collect(), assign: (0..n).map(|i| i % 2).collect(), shape: "identity".into() },
                    Schedule { workers: s.workers, order: (0..n).collect(), assign: s.assign.clone(), shape: "identity".into() },
                ];
                for c in candidates {
                    let mut cand = sc.clone();
                    cand.leg = Leg::Controlled(c);
                    if let Ok(o) = guard(|| execute(&cand)) {
                        let d2 = compare(&o.check, &baseline.check, &o.audit.handoff_order);
                        if !d2.is_empty() || !o.audit.clean() {
                            best = cand;
                            break;
                        }
                    }
                }
            }
            if best != sc {
                if let Ok(o) = guard(|| execute(&best)) {
                    let d2 = compare(&o.check, &baseline.check, &o.audit.handoff_order);
                    report(ctx, &best, &d2, &o.audit);
                } else {
                    report(ctx, &sc, &divs, &outcome.audit);
                }
            } else {
                report(ctx, &sc, &divs, &outcome.audit);
            }
        }
        if ctx.k % 37 == 0 {
            ctx.stats.sample(json!({
                "project": sc.spec.id,
                "tests": n,
                "options": sc.opts.tag(),
                "leg": sc.leg,
                "rc_allocations_audited": outcome.audit.allocations,
            }));
        }
    }

    fn replay(&self, trace: &Value, ctx: &mut RunCtx) {
        let Some(sc) = trace
            .get("scenario")
            .and_then(|s| serde_json::from_value::<SchedScenario>(s.clone()).ok())
        else {
            ctx.harness_error("replay: no scenario".into());
            return;
        };
        let deterministic = trace
            .get("deterministic_replay")
            .and_then(|b| b.as_bool())
            .unwrap_or(true);
        let baseline_sc = SchedScenario {
            leg: Leg::Sequential,
            only: None,
            ..sc.clone()
        };
        let baseline = match guard(|| execute(&baseline_sc)) {
            Ok(b) => b,
            Err(p) => {
                ctx.harness_error(format!("replay: baseline panicked: {} @ {}", p.message, p.location));
                return;
            }
        };
        if let Some((m, n)) = &sc.only {
            // batch-vs-alone class: compare the test run alone with the same test in the batch
            if let Ok(alone) = guard(|| execute(&sc)) {
                let key = format!("{m}::{n}");
                if let (Some(a), Some(t)) = (
                    alone.check.tests.iter().find(|t| t.key() == key),
                    baseline.check.tests.iter().find(|t| t.key() == key),
                ) {
                    let diff = t.diff(a);
                    if !diff.is_empty() {
                        report(
                            ctx,
                            &sc,
                            &[(
                                format!("batch-vs-alone:{}", diff[0].split(':').next().unwrap_or("")),
                                format!("{key} in the whole run vs run alone: {}", diff.join("; ")),
                            )],
                            &AuditReport::default(),
                        );
                    }
                }
            }
            return;
        }
        for _ in 0..(if deterministic { 1 } else { 40 }) {
            match guard(|| execute(&sc)) {
                Ok(o) => {
                    let divs = compare(&o.check, &baseline.check, &o.audit.handoff_order);
                    if !divs.is_empty() || !o.audit.clean() {
                        report(ctx, &sc, &divs, &o.audit);
                        return;
                    }
                }
                Err(p) => {
                    ctx.violation(
                        PROP,
                        "schedule-dependence:panic",
                        format!("schedule-dependence|panic@{}", p.site()),
                        format!("scheduled run panicked: {} @ {}", p.message, p.location),
                        trace.clone(),
                    );
                    return;
                }
            }
        }
    }

    fn evidence(&self, stats: &Stats, _tier: Tier) -> EvidenceParts {
        EvidenceParts {
            level: "exploration",
            evaluations: stats.get("evaluations"),
            distinct_nontrivial: stats.distinct("nontrivial"),
            rule: "one run = one project (2/3 generated 8-12 module projects whose tests share Pairs / nested-list / tuple constants, recursive helpers and same-named types across modules; 1/3 acceptance projects in order) × seeded options and property seed × one leg: {controlled: H2 executor, 1-16 simulator-owned worker threads, seeded assignment and execution order (reverse, interleaved, shuffled, all-on-one, one-each), one test released at a time | rayon: real scheduler at width 2/3/8/16}; every per-test observable and the result order are compared with the one-thread run; at every hand-off (H1) the ownership audit walks every Rc reachable from every test; distinct = distinct (project, options, schedule); non-trivial = at least two tests".into(),
            extra: json!({
                "schedule_kinds": {
                    "controlled_runs": stats.get("leg_controlled"),
                    "rayon_runs": stats.get("leg_rayon"),
                    "distinct_controlled_schedules": stats.distinct("schedules"),
                    "shape_reverse": stats.get("shape_reverse"),
                    "shape_identity": stats.get("shape_identity"),
                    "shape_interleaved": stats.get("shape_interleaved"),
                    "shape_shuffled": stats.get("shape_shuffled"),
                    "max_workers": stats.get("max_workers"),
                    "rayon_width_2": stats.get("rayon_width_2"),
                    "rayon_width_3": stats.get("rayon_width_3"),
                    "rayon_width_8": stats.get("rayon_width_8"),
                    "rayon_width_16": stats.get("rayon_width_16"),
                },
                "ownership_audit": {
                    "hand_offs_audited": stats.get("audits"),
                    "one_at_a_time_reruns": stats.get("one_at_a_time_reruns"),
                    "benchmark_runs": stats.get("benchmark_runs"),
                    "rc_allocations_audited": stats.get("rc_allocations_audited"),
                    "tests_scheduled": stats.get("tests_scheduled"),
                },
                "components": {
                    "real": ["aiken-project Project::check → collect_tests → run_runnables (assertion take, hand-off, result/assertion zip, reify)", "aiken-lang test framework, code generator", "uplc CEK", "rayon (uncontrolled leg only)"],
                    "simulated": ["which worker thread runs which test and in what order (executor seam H2)", "hash epoch", "pool width"],
                    "stubbed": ["in the controlled leg the parallel iterator is replaced by the simulator's executor: rayon's indexed collect is exercised only by the uncontrolled leg"]
                }
            }),
            assumptions: vec![
                "the audited set is what a worker reads, clones or drops on this tree: the test/fuzzer/sampler programs (Rc<Term>, Rc<Name>, Rc<Constant>, Rc<Type> inside constants) and UnitTest.assertion; Fuzzer.type_info is shared with the AST on purpose and only moved, never touched, by a worker".into(),
                "a test has no yield point inside, so tests interleave at whole-test granularity; the controlled leg explores orders and worker assignments at that granularity".into(),
                "the rayon leg is not deterministic; its oracle (equality with the sequential run) cannot raise a false alarm".into(),
            ],
        }
    }

    fn hang_bound(&self, _tier: Tier) -> std::time::Duration {
        std::time::Duration::from_secs(600)
    }
}
